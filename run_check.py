#!/usr/bin/env python3
"""Entry point of every check: run_check.py <Cxx> --tier quick|thorough [--replay FILE]."""
import argparse
import os
import sys

sys.path.insert(0, os.path.dirname(os.path.abspath(__file__)))

from vlib.runner import run  # noqa: E402


def main() -> int:
    ap = argparse.ArgumentParser()
    ap.add_argument('prop')
    ap.add_argument('--tier', default=os.environ.get('VERIF_TIER') or 'quick', choices=['quick', 'thorough'])
    ap.add_argument('--replay', default=None)
    a = ap.parse_args()
    try:
        return run(a.prop.upper(), a.tier, a.replay)
    except KeyboardInterrupt:
        return 2
    except Exception:  # noqa: BLE001
        import traceback

        traceback.print_exc()
        print(f'INCONCLUSIVE property={a.prop}: harness crashed')
        return 2


if __name__ == '__main__':
    sys.exit(main())
