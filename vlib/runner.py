"""Parent process of a check: shards, modes, timeouts, merge, verdict lines, evidence.

Never imports JAX or furax. Exit codes: 0 held / 1 violation / 2 harness error or inconclusive.
"""

from __future__ import annotations

import json
import os
import shutil
import subprocess
import sys
import time

from .plan import PLAN

HERE = os.path.dirname(os.path.dirname(os.path.abspath(__file__)))
PY = os.environ.get('VERIF_PYTHON', '/venv/bin/python')


def load_known() -> dict[str, list[tuple[str, str]]]:
    known: dict[str, list[tuple[str, str]]] = {}
    path = os.path.join(HERE, 'KNOWN_FINDINGS.txt')
    if not os.path.exists(path):
        return known
    with open(path) as fh:
        for line in fh:
            line = line.strip()
            if not line.startswith('known:'):
                continue
            toks = line[len('known:'):].split()
            prop = key = None
            rest = []
            for t in toks:
                if t.startswith('property=') and prop is None:
                    prop = t.split('=', 1)[1]
                elif t.startswith('key=') and key is None:
                    key = t.split('=', 1)[1]
                else:
                    rest.append(t)
            if prop and key:
                known.setdefault(prop, []).append((key, ' '.join(rest)))
    return known


def worker_env() -> dict:
    env = dict(os.environ)
    env['PYTHONHASHSEED'] = '0'
    env['PYTHONPATH'] = os.pathsep.join(
        [os.environ.get('VERIF_REPO_SRC', '/repo/src'), HERE]
        + ([env['PYTHONPATH']] if env.get('PYTHONPATH') else [])
    )
    env['PYTHONDONTWRITEBYTECODE'] = '1'
    env.pop('JAX_ENABLE_X64', None)
    return env


def run(prop: str, tier: str, replay: str | None = None) -> int:
    t0 = time.time()
    seed = int(os.environ.get('VERIF_SEED', '1') or 1)
    plan = PLAN[prop]
    tplan = plan[tier]
    work = os.path.join(HERE, '.work', f'{prop}_{os.getpid()}')
    os.makedirs(work, exist_ok=True)
    try:
        return _run(prop, tier, replay, seed, plan, tplan, work, t0)
    finally:
        shutil.rmtree(work, ignore_errors=True)


def _run(prop, tier, replay, seed, plan, tplan, work, t0) -> int:
    jobs = []
    if replay is not None:
        with open(replay) as fh:
            rep = json.load(fh)
        modes = [rep.get('mode', 'x32')]
        if modes == ['any']:
            modes = ['x32', 'x64']
        for m in modes:
            jobs.append((m, 0, 1, ['--replay', os.path.abspath(replay)]))
    else:
        scale = float(os.environ.get('VERIF_SCALE', '1') or 1)
        for mode, nshards in plan['shards'].items():
            for k in range(nshards):
                extra = ['--budget', str(tplan['budget'])]
                if 'examples' in tplan:
                    extra += ['--examples', str(max(1, int(tplan['examples'] * scale)))]
                jobs.append((mode, k, nshards, extra))
    procs = []
    env = worker_env()
    for mode, k, n, extra in jobs:
        out = os.path.join(work, f'{mode}_{k}.json')
        log = open(os.path.join(work, f'{mode}_{k}.log'), 'w')
        cmd = [PY, '-m', 'vlib.worker', prop, mode, str(k), str(n), str(seed), tier, out] + extra
        p = subprocess.Popen(cmd, cwd=HERE, env=env, stdout=log, stderr=subprocess.STDOUT)
        procs.append((p, out, log, mode, k))
    hard = tplan.get('hard_timeout', tplan['budget'] * 4 + 300)
    results = []
    harness_errors = []
    for p, out, log, mode, k in procs:
        remaining = max(1.0, hard - (time.time() - t0))
        try:
            p.wait(timeout=remaining)
        except subprocess.TimeoutExpired:
            p.kill()
            p.wait()
            harness_errors.append(f'worker {mode}/{k} exceeded the hard time limit ({hard:.0f}s)')
        log.close()
        if os.path.exists(out):
            with open(out) as fh:
                results.append(json.load(fh))
        else:
            with open(log.name) as fh:
                tail = fh.read()[-2000:]
            harness_errors.append(f'worker {mode}/{k} produced no result (rc={p.returncode}): {tail}')

    known = {k: txt for k, txt in load_known().get(prop, [])}
    merged = merge(results)
    for r in results:
        if not r.get('ok'):
            harness_errors.append(f"worker {r.get('mode')}/{r.get('shard')} fatal: {r.get('fatal', '')[-1500:]}")
        for e in r.get('errors', []):
            harness_errors.append(
                f"harness error in {r.get('mode')}/{r.get('shard')} ({e.get('source')}): "
                f"{e.get('traceback', '')[-1500:]}\nrecipe={json.dumps(e.get('recipe'))[:1500]}"
            )

    # verdict lines
    violations = 0
    known_seen = []
    seen_keys = set()
    vdir = os.path.join(HERE, 'out', 'violations')
    for f in merged['failures']:
        key = f['key']
        if key in seen_keys:
            continue
        seen_keys.add(key)
        if key in known:
            print(f'KNOWN-FINDING: property={prop} key={key} {known[key]}')
            known_seen.append(key)
            continue
        violations += 1
        path = f.get('replay_file')
        if not path:
            os.makedirs(vdir, exist_ok=True)
            from .common import rhash

            path = os.path.join(vdir, f"{prop}_{f['mode']}_{rhash(f['recipe'])}.json")
            with open(path, 'w') as fh:
                json.dump(
                    {'property': prop, 'mode': f['mode'], 'key': key, 'detail': f['detail'],
                     'recipe': f['recipe']}, fh, indent=1)
        print(f'VIOLATION property={prop} replay={path}')
        print(f'  key={key}')
        print(f'  detail={f["detail"][:600]}')
        print(f'  mode={f["mode"]} source={f["source"]}')

    wall = time.time() - t0
    if replay is None and not os.environ.get('VERIF_NO_EVIDENCE'):
        write_evidence(prop, tier, seed, merged, results, violations, known_seen, harness_errors, wall)
    print(
        f'{prop} tier={tier} seed={seed} evaluations={merged["evaluations"]} '
        f'distinct_nontrivial={merged["distinct_nontrivial"]} violations={violations} '
        f'known={len(known_seen)} excluded={merged["excluded"]} wall={wall:.1f}s'
    )
    if violations:
        return 1
    if harness_errors:
        for h in harness_errors[:6]:
            print('HARNESS-ERROR', h, file=sys.stderr)
        print(f'INCONCLUSIVE property={prop}: {len(harness_errors)} harness error(s)')
        return 2
    if replay is None and tier == 'thorough' and merged.get('gaps'):
        print(f'INCONCLUSIVE property={prop}: required classes never generated: {merged["gaps"]}')
        return 2
    return 0


def merge(results: list[dict]) -> dict:
    m = {
        'evaluations': 0, 'skipped': 0, 'excluded': 0, 'deferred': 0, 'classes': {},
        'samples': [], 'failures': [], 'by_mode': {}, 'hyp_invalid': 0, 'replays_run': 0,
        'sweep_cases': 0, 'stopped_early': False, 'distinct': 0, 'extra': {},
    }
    nontrivial = set()
    sweep_flags = []
    for r in results:
        m['evaluations'] += r.get('evaluations', 0)
        m['skipped'] += r.get('skipped', 0)
        m['excluded'] += r.get('excluded', 0)
        m['deferred'] += r.get('deferred', 0)
        m['hyp_invalid'] += r.get('hyp_invalid', 0)
        m['replays_run'] += r.get('replays_run', 0)
        m['sweep_cases'] += r.get('sweep_cases', 0)
        m['distinct'] += r.get('distinct', 0)
        m['stopped_early'] |= bool(r.get('stopped_early'))
        if r.get('sweep_cases', 0):
            sweep_flags.append(bool(r.get('sweep_exhaustive')))
        for c, n in r.get('classes', {}).items():
            m['classes'][c] = m['classes'].get(c, 0) + n
        for k, v in r.get('extra', {}).items():
            if isinstance(v, (int, float)) and not isinstance(v, bool):
                m['extra'][k] = m['extra'].get(k, 0) + v
            else:
                m['extra'][k] = v
        mode = r.get('mode', '?')
        bm = m['by_mode'].setdefault(mode, {'evaluations': 0, 'nontrivial': 0})
        bm['evaluations'] += r.get('evaluations', 0)
        bm['nontrivial'] += len(r.get('nontrivial', []))
        nontrivial.update(f'{mode}:{h}' for h in r.get('nontrivial', []))
        m['samples'].extend(r.get('samples', []))
        m['failures'].extend(r.get('failures', []))
    m['distinct_nontrivial'] = len(nontrivial)
    m['sweep_exhaustive'] = bool(sweep_flags) and all(sweep_flags)
    m['failures'].sort(key=lambda f: len(json.dumps(f['recipe'])))
    return m


def write_evidence(prop, tier, seed, merged, results, violations, known_seen, harness_errors, wall):
    plan = PLAN[prop]
    rule = next((r.get('rule') for r in results if r.get('rule')), plan.get('rule', ''))
    assumptions = next((r.get('assumptions') for r in results if r.get('assumptions')), [])
    required = plan.get('required_classes', {}).get(tier, plan.get('required_classes', {}).get('all', []))
    gaps = [c for c in required if merged['classes'].get(c, 0) == 0]
    merged['gaps'] = gaps
    samples = merged['samples'][:4]
    for f in merged['failures'][:3]:
        samples.append({'failing': True, 'key': f['key'], 'mode': f['mode'], 'recipe': f['recipe']})
    cov = {
        'evaluations': merged['evaluations'],
        'distinct_nontrivial': merged['distinct_nontrivial'],
        'rule': rule,
        'samples': samples,
        'distinct_cases': merged['distinct'],
        'by_mode': merged['by_mode'],
        'by_class': dict(sorted(merged['classes'].items())),
        'skipped_out_of_domain': merged['skipped'],
        'excluded_by_reported_bucket': merged['excluded'],
        'deferred_other_bucket': merged['deferred'],
        'replay_recipes_run': merged['replays_run'],
        'sweep_cases': merged['sweep_cases'],
        'known_findings_seen': known_seen,
        'gaps': gaps,
        'stopped_early_on_time_budget': merged['stopped_early'],
        'harness_errors': len(harness_errors),
    }
    if merged['extra']:
        cov['extra'] = merged['extra']
    if merged['sweep_cases']:
        cov['exhaustive'] = bool(merged['sweep_exhaustive'])
        cov['exhaustive_scope'] = plan.get('exhaustive_scope', 'the enumerated sweep only, not the Hypothesis part')
    ev = {
        'property_id': prop,
        'tier': tier,
        'seed': seed,
        'level': 'exploration',
        'coverage': cov,
        'assumptions': assumptions,
        'wall_s': round(wall, 2),
        'violations': violations,
    }
    os.makedirs(os.path.join(HERE, 'evidence'), exist_ok=True)
    path = os.path.join(HERE, 'evidence', f'{prop}.json')
    with open(path + '.tmp', 'w') as fh:
        json.dump(ev, fh, indent=1, default=str)
    os.replace(path + '.tmp', path)
