"""Structure recipes (plain JSON data) <-> JAX pytrees of ShapeDtypeStruct / arrays.

S ::= {"t":"leaf","shape":[...],"dtype":"float32"}
    | {"t":"tuple"|"list","items":[S,...]}
    | {"t":"dict","items":[[key,S],...]}          (insertion order as listed; JAX flattens by sorted key)
    | {"t":"stokes","kind":"I|QU|IQU|IQUV","shape":[...],"dtype":...}

The numpy side of the harness sees a value over S as the list of its leaves in JAX flatten order,
or as the concatenation of the row-major raveled leaves (the order property C04 documents).
"""

from __future__ import annotations

import math

import numpy as np


def leaf(shape, dtype='float32'):
    return {'t': 'leaf', 'shape': [int(s) for s in shape], 'dtype': str(dtype)}


def stokes(kind, shape, dtype='float32'):
    return {'t': 'stokes', 'kind': kind, 'shape': [int(s) for s in shape], 'dtype': str(dtype)}


def leaves(S) -> list[tuple[tuple[int, ...], str]]:
    """Leaves in JAX flatten order."""
    t = S['t']
    if t == 'leaf':
        return [(tuple(S['shape']), S['dtype'])]
    if t == 'stokes':
        if S.get('dtypes'):
            return [(tuple(S['shape']), d) for d in S['dtypes']]
        return [(tuple(S['shape']), S['dtype'])] * len(S['kind'])
    if t in ('tuple', 'list'):
        return [l for it in S['items'] for l in leaves(it)]
    if t == 'dict':
        return [l for k, it in sorted(S['items'], key=lambda kv: kv[0]) for l in leaves(it)]
    raise ValueError(t)


def size(S) -> int:
    return sum(math.prod(sh) for sh, _ in leaves(S))


def nleaves(S) -> int:
    return len(leaves(S))


def children(S):
    """Direct children of a container structure, in JAX flatten order."""
    t = S['t']
    if t in ('tuple', 'list'):
        return list(S['items'])
    if t == 'dict':
        return [it for k, it in sorted(S['items'], key=lambda kv: kv[0])]
    return None


def map_leaves(S, f):
    """New structure with every leaf (shape, dtype) replaced by f(shape, dtype) -> (shape, dtype)."""
    t = S['t']
    if t == 'leaf':
        sh, dt = f(tuple(S['shape']), S['dtype'])
        return leaf(sh, dt)
    if t == 'stokes':
        if S.get('dtypes'):
            res = [f(tuple(S['shape']), d) for d in S['dtypes']]
            out = stokes(S['kind'], res[0][0], res[0][1])
            out['dtypes'] = [r_[1] for r_ in res]
            return out
        sh, dt = f(tuple(S['shape']), S['dtype'])
        return stokes(S['kind'], sh, dt)
    if t in ('tuple', 'list'):
        return {'t': t, 'items': [map_leaves(it, f) for it in S['items']]}
    if t == 'dict':
        return {'t': 'dict', 'items': [[k, map_leaves(it, f)] for k, it in S['items']]}
    raise ValueError(t)


def replace_leaves(S, new_leaves):
    """New structure whose leaves, in JAX flatten order, are new_leaves [(shape, dtype), ...]."""
    it = iter(new_leaves)

    def rec(S):
        t = S['t']
        if t == 'leaf':
            sh, dt = next(it)
            return leaf(sh, dt)
        if t == 'stokes':
            got = [next(it) for _ in S['kind']]
            out = stokes(S['kind'], got[0][0], got[0][1])
            if len({g[1] for g in got}) > 1:
                out['dtypes'] = [g[1] for g in got]
            return out
        if t in ('tuple', 'list'):
            return {'t': t, 'items': [rec(x) for x in S['items']]}
        if t == 'dict':
            done = {k: rec(v) for k, v in sorted(S['items'], key=lambda kv: kv[0])}
            return {'t': 'dict', 'items': [[k, done[k]] for k, _ in S['items']]}
        raise ValueError(t)

    return rec(S)


def equal(S1, S2) -> bool:
    """Structural equality as JAX sees it (dict order irrelevant)."""
    if S1['t'] != S2['t']:
        return False
    t = S1['t']
    if t == 'leaf':
        return list(S1['shape']) == list(S2['shape']) and S1['dtype'] == S2['dtype']
    if t == 'stokes':
        return (
            S1['kind'] == S2['kind']
            and list(S1['shape']) == list(S2['shape'])
            and [d for _, d in leaves(S1)] == [d for _, d in leaves(S2)]
        )
    if t in ('tuple', 'list'):
        return len(S1['items']) == len(S2['items']) and all(
            equal(a, b) for a, b in zip(S1['items'], S2['items'])
        )
    if t == 'dict':
        d1, d2 = dict(map(tuple, S1['items'])), dict(map(tuple, S2['items']))
        return d1.keys() == d2.keys() and all(equal(d1[k], d2[k]) for k in d1)
    raise ValueError(t)


def narrowest_eps(*Ss) -> float:
    dts = {dt for S in Ss for _, dt in leaves(S)}
    if 'float32' in dts or 'complex64' in dts:
        return float(np.finfo(np.float32).eps)
    return float(np.finfo(np.float64).eps)


# ---------------------------------------------------------------------------------------------
# JAX side (imported lazily: the parent process never calls these)


def _stokes_cls(kind):
    from furax.landscapes import StokesIPyTree, StokesIQUPyTree, StokesIQUVPyTree, StokesQUPyTree

    return {'I': StokesIPyTree, 'QU': StokesQUPyTree, 'IQU': StokesIQUPyTree, 'IQUV': StokesIQUVPyTree}[kind]


def to_jax(S):
    """Pytree of jax.ShapeDtypeStruct."""
    import jax
    import jax.numpy as jnp

    t = S['t']
    if t == 'leaf':
        return jax.ShapeDtypeStruct(tuple(S['shape']), jnp.dtype(S['dtype']))
    if t == 'stokes':
        if S.get('dtypes'):
            return _stokes_cls(S['kind'])(*[jax.ShapeDtypeStruct(tuple(S['shape']), jnp.dtype(d)) for d in S['dtypes']])
        sds = jax.ShapeDtypeStruct(tuple(S['shape']), jnp.dtype(S['dtype']))
        return _stokes_cls(S['kind'])(*([sds] * len(S['kind'])))
    if t == 'tuple':
        return tuple(to_jax(it) for it in S['items'])
    if t == 'list':
        return [to_jax(it) for it in S['items']]
    if t == 'dict':
        return {k: to_jax(it) for k, it in S['items']}
    raise ValueError(t)


def build_value(S, np_leaves):
    """JAX pytree of arrays over S from numpy leaves given in JAX flatten order."""
    import jax
    import jax.numpy as jnp

    struct = to_jax(S)
    sds, treedef = jax.tree.flatten(struct)
    assert len(sds) == len(np_leaves), (len(sds), len(np_leaves))
    arrs = [jnp.asarray(np.asarray(v).reshape(s.shape), dtype=s.dtype) for v, s in zip(np_leaves, sds)]
    return jax.tree.unflatten(treedef, arrs)


def value_from_flat(S, flat):
    """JAX pytree over S from one flat numpy vector (leaf order, row-major)."""
    out = []
    pos = 0
    for sh, _ in leaves(S):
        n = math.prod(sh)
        out.append(np.asarray(flat[pos : pos + n]).reshape(sh))
        pos += n
    assert pos == len(flat)
    return build_value(S, out)


def np_leaves_from_flat(S, flat):
    out = []
    pos = 0
    for sh, _ in leaves(S):
        n = math.prod(sh)
        out.append(np.asarray(flat[pos : pos + n], dtype=np.float64).reshape(sh))
        pos += n
    return out


def flat_of_value(value) -> np.ndarray:
    """Flat float64 (or complex128) numpy vector of a JAX pytree of arrays."""
    import jax

    ls = jax.tree.leaves(value)
    if not ls:
        return np.zeros(0)
    return np.concatenate([np.asarray(l).reshape(-1) for l in ls]).astype(
        np.complex128 if any(np.iscomplexobj(np.asarray(l)) for l in ls) else np.float64
    )


def describe(value) -> str:
    """Tree structure + shapes + dtypes of a JAX pytree of arrays or structs, as a string."""
    import jax

    ls, td = jax.tree.flatten(value)
    return f'{td} ' + ','.join(f'{tuple(l.shape)}:{np.dtype(l.dtype).name}' for l in ls)


def same_structure(S, value_or_struct) -> bool:
    """Does a JAX pytree (of arrays or ShapeDtypeStruct) have exactly the structure S?"""
    import jax

    want, wtd = jax.tree.flatten(to_jax(S))
    got, gtd = jax.tree.flatten(value_or_struct)
    if wtd != gtd or len(want) != len(got):
        return False
    for w, g in zip(want, got):
        if not hasattr(g, 'shape') or not hasattr(g, 'dtype'):
            return False
        if tuple(w.shape) != tuple(g.shape) or np.dtype(w.dtype) != np.dtype(g.dtype):
            return False
    return True


def from_jax(struct):
    """Inverse of to_jax for the containers the harness generates (used for reporting)."""
    import jax

    from furax.landscapes import StokesPyTree

    if isinstance(struct, StokesPyTree):
        l0 = jax.tree.leaves(struct)[0]
        return stokes(struct.stokes, l0.shape, np.dtype(l0.dtype).name)
    if isinstance(struct, tuple):
        return {'t': 'tuple', 'items': [from_jax(s) for s in struct]}
    if isinstance(struct, list):
        return {'t': 'list', 'items': [from_jax(s) for s in struct]}
    if isinstance(struct, dict):
        return {'t': 'dict', 'items': [[k, from_jax(v)] for k, v in struct.items()]}
    return leaf(struct.shape, np.dtype(struct.dtype).name)
