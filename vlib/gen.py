"""Hypothesis strategies producing operator recipes (type-directed: every composition is well typed
by construction, no rejection sampling).

The central function is ``operand(draw, G, S, depth)``: draw an operator recipe whose input structure
is S.  ``G`` (GenCtx) carries the shared definitions (objects referenced several times), the 64-bit
mode and size caps.
"""

from __future__ import annotations

import math

import numpy as np
from hypothesis import strategies as st

from . import ops
from . import structs as St

VALS = [-3, -2, -1, 1, 2, 3, 0.5, -0.5, 0.25, 1.5, -1.5, 4]
ANGLES = [0.0, 0.25, -0.25, 0.5, -0.75, 1.0, -1.25, 2.0, 3.0, -2.5, 0.125, 0.7853981633974483]
SCALAR_TYPES = ['py_int', 'py_float', 'py_float', 'np_f32', 'np_i32', 'np_0d', 'jax_0d', 'jax_0d_weak']


class GenCtx:
    def __init__(self, mode, cap=24, kinds=None, allow_cg=True):
        self.mode = mode
        self.cap = cap
        self.defs: list = []
        self.kinds = kinds  # optional whitelist of leaf kinds
        self.allow_cg = allow_cg

    def define(self, recipe):
        self.defs.append(recipe)
        return {'k': 'ref', 'i': len(self.defs) - 1}

    def out_of(self, r):
        return ops.out_of(r, self.defs)

    def in_of(self, r):
        return ops.in_of(r, self.defs)


# ---------------------------------------------------------------------------------------------
# structures


def dtypes(mode):
    return ['float32', 'float64'] if mode == 'x64' else ['float32']


@st.composite
def shape_st(draw, min_rank=0, max_rank=3, cap=24, max_dim=4):
    rank = draw(st.integers(min_rank, max_rank))
    shape = []
    budget = cap
    for _ in range(rank):
        d = draw(st.integers(1, max(1, min(max_dim, budget))))
        shape.append(d)
        budget = max(1, budget // d)
    return shape


@st.composite
def structure(draw, mode, cap=24, kinds=('leaf', 'leaf', 'tuple', 'list', 'dict', 'nested', 'stokes', 'stokes',
                                          'related'),
              min_rank=0):
    kind = draw(st.sampled_from(list(kinds)))
    dts = dtypes(mode)
    dt = draw(st.sampled_from(dts))
    if kind == 'related':
        # leaves of related shapes (equal shapes separated by a leading/trailing sub-shape), as in
        # {'tod': (ndet, nsample), 'ground': (ndet,), 'tod2': (ndet, nsample)}
        base = [draw(st.integers(2, 3)) for _ in range(draw(st.integers(2, 3 if cap >= 24 else 2)))]
        cut = draw(st.integers(1, len(base) - 1))
        part = base[:cut] if draw(st.booleans()) else base[cut:]
        shapes = draw(st.sampled_from([[base, part, base], [base, part, base], [part, base, part],
                                       [base, base, part], [part, base, base], [base, part], [part, base]]))
        n = len(shapes)
        def dtl():
            return draw(st.sampled_from(dts)) if draw(st.integers(0, 3)) == 0 else dt
        leaves_ = [St.leaf(sh, dtl()) for sh in shapes]
        form = draw(st.sampled_from(['tuple', 'list', 'dict']))
        if form == 'dict':
            keys = list(draw(st.permutations(['b', 'a', 'c'])))[:n]
            return {'t': 'dict', 'items': [[k, l] for k, l in zip(keys, leaves_)]}
        return {'t': form, 'items': leaves_}
    if kind == 'leaf':
        return St.leaf(draw(shape_st(min_rank=min_rank, cap=cap)), dt)
    if kind == 'stokes':
        return St.stokes(draw(st.sampled_from(['I', 'QU', 'IQU', 'IQUV'])),
                         draw(shape_st(min_rank=min_rank, max_rank=2, cap=max(1, cap // 4))), dt)
    n = draw(st.integers(1, 3))
    sub = max(1, cap // n)

    def child():
        d = draw(st.sampled_from(dts)) if draw(st.integers(0, 3)) == 0 else dt
        return St.leaf(draw(shape_st(min_rank=min_rank, cap=sub)), d)

    if kind == 'tuple':
        return {'t': 'tuple', 'items': [child() for _ in range(n)]}
    if kind == 'list':
        return {'t': 'list', 'items': [child() for _ in range(n)]}
    if kind == 'dict':
        keys = list(draw(st.permutations(['b', 'a', 'c'])))[:n]
        return {'t': 'dict', 'items': [[k, child()] for k in keys]}
    # nested
    inner = {'t': draw(st.sampled_from(['tuple', 'list'])), 'items': [child() for _ in range(draw(st.integers(1, 2)))]}
    sub = max(1, cap // 3)
    return {'t': 'dict', 'items': [['y', inner], ['x', child()]]} if draw(st.booleans()) else \
        {'t': 'tuple', 'items': [child(), inner]}


def vdt(draw, G, S):
    """dtype of operator parameters: never wider than the data dtype."""
    if G.mode == 'x64' and all(dt == 'float64' for _, dt in St.leaves(S)):
        return draw(st.sampled_from(['float32', 'float64']))
    return 'float32'


def _vals(draw, n, zeros=False):
    pool = VALS + ([0, 0] if zeros else [])
    return draw(st.lists(st.sampled_from(pool), min_size=n, max_size=n))


def _arr(draw, shape, zeros=False):
    n = math.prod(shape)
    return np.asarray(_vals(draw, n, zeros), dtype=float).reshape(shape).tolist()


# ---------------------------------------------------------------------------------------------
# leaf kinds: applicability and parameters


def _ranks(S):
    return [len(sh) for sh, _ in St.leaves(S)]


def _shapes(S):
    return [sh for sh, _ in St.leaves(S)]


def applicable_kinds(G, S, square):
    shapes = _shapes(S)
    ranks = [len(s) for s in shapes]
    single = S['t'] == 'leaf'
    size = St.size(S)
    ks = ['id', 'hom']
    if all(r >= 1 for r in ranks):
        ks += ['diag', 'diag']
        if dense_forms(S):
            ks += ['dense', 'dense']
        ks += ['index', 'index']
    if S['t'] == 'stokes':
        ks += ['hwp', 'hwp', 'rot', 'rot', 'rot']
        if not square:
            ks += ['pol', 'pol']
    if single and ranks[0] >= 1:
        ks += ['toeplitz']
        if ranks[0] == 1 and 2 <= shapes[0][0] <= 8:
            ks += ['toast']
    if not square:
        if S['t'] in ('leaf', 'stokes') and all(r >= 1 for r in ranks):
            ks += ['pack']
            if 2 * size <= G.cap * 2:
                ks += ['bdiag']
        if all(r >= 2 for r in ranks):
            ks += ['move', 'move']
        if all(r >= 1 for r in ranks):
            ks += ['ravel', 'reshape']
    if G.kinds is not None:
        ks = [k for k in ks if k in G.kinds]
    return ks or ['id']


def _common_axes(shapes):
    """Axes addressable on every leaf with the same length: list of (axis, dim)."""
    minr = min(len(s) for s in shapes)
    out = []
    same_rank = len({len(s) for s in shapes}) == 1
    for j in range(1, minr + 1):
        dims = {s[-j] for s in shapes}
        if len(dims) == 1:
            out.append((-j, dims.pop()))
    for j in range(minr):
        dims = {s[j] for s in shapes}
        if len(dims) == 1 and (same_rank or True):
            out.append((j, dims.pop()))
    return out


def g_diag(draw, G, S, zeros=False):
    shapes = _shapes(S)
    cands = _common_axes(shapes)
    form = draw(st.sampled_from(['one', 'one', 'bcast1', 'two'])) if cands else 'bcast1'
    if form == 'bcast1' or not cands:
        return {'k': 'diag', 'in': S, 'vals': _arr(draw, (1,), zeros), 'axis': draw(st.sampled_from([-1, 0])),
                'vdtype': vdt(draw, G, S)}
    if form == 'two' and len(shapes) == 1 and len(shapes[0]) >= 2:
        sh = shapes[0]
        nd = len(sh)
        a, b = draw(st.permutations(list(range(nd))))[:2]
        vshape = (sh[a], sh[b])
        if draw(st.booleans()):
            vshape = (1, sh[b]) if draw(st.booleans()) else (sh[a], 1)
        axes = [a - nd if draw(st.booleans()) else a, b - nd if draw(st.booleans()) else b]
        return {'k': 'diag', 'in': S, 'vals': _arr(draw, vshape, zeros), 'axis': axes, 'vdtype': vdt(draw, G, S),
                'axis_as_list': draw(st.booleans())}
    ax, d = draw(st.sampled_from(cands))
    axis = ax if draw(st.booleans()) else [ax]
    return {'k': 'diag', 'in': S, 'vals': _arr(draw, (d,), zeros), 'axis': axis, 'vdtype': vdt(draw, G, S)}


def g_bdiag(draw, G, S):
    sh = _shapes(S)[0]
    nd = len(sh)
    k = draw(st.integers(1, 3))  # k == 1 merely adds a length-one axis (size-preserving shape change)
    form = draw(st.sampled_from(['left', 'right', 'inplace', 'unit2']))
    if form == 'unit2':
        # values of shape (1, d) laid on the last axis and on a new leading axis
        d = sh[-1]
        return {'k': 'bdiag', 'in': S, 'vals': _arr(draw, (1, d)), 'axis': [-(nd + 1), -1], 'vdtype': vdt(draw, G, S)}
    if form == 'left':
        return {'k': 'bdiag', 'in': S, 'vals': _arr(draw, (k,)), 'axis': -(nd + 1), 'vdtype': vdt(draw, G, S)}
    if form == 'right':
        return {'k': 'bdiag', 'in': S, 'vals': _arr(draw, (k,)), 'axis': nd, 'vdtype': vdt(draw, G, S)}
    ax = draw(st.integers(0, nd - 1))
    d = sh[ax] if sh[ax] > 1 else k
    return {'k': 'bdiag', 'in': S, 'vals': _arr(draw, (d,)), 'axis': ax - nd if draw(st.booleans()) else ax,
            'vdtype': vdt(draw, G, S)}


def has_stokes(S):
    if S['t'] == 'stokes':
        return True
    if S['t'] == 'leaf':
        return False
    return any(has_stokes(c) for c in _children_in_order(S))


def dense_forms(S):
    shapes = _shapes(S)
    if not all(len(s) >= 1 for s in shapes):
        return []
    single = len(shapes) == 1
    forms = []
    if len({s[0] for s in shapes}) == 1:
        forms.append('first')
    if len({s[-1] for s in shapes}) == 1:
        forms.append('last')
    if single and len(shapes[0]) == 2:
        forms += ['hij', 'ikj', 'kij']
    if S['t'] in ('tuple', 'list', 'dict') and not has_stokes(S):
        # (per-leaf blocks would give the components of a Stokes container different shapes)
        forms.append('per_leaf')
    return forms


def g_dense(draw, G, S, square, spd=False):
    shapes = _shapes(S)
    single = len(shapes) == 1
    forms = dense_forms(S)
    form = draw(st.sampled_from(forms))
    size = St.size(S)

    def out_dim(j):
        if square:
            return j
        hi = max(1, min(4, (G.cap * 2 * j) // max(1, size)))
        return draw(st.integers(1, hi))

    def block(i, j):
        if spd:
            return _spd(draw, j)
        return _arr(draw, (i, j))

    if form == 'first':
        j = shapes[0][0]
        i = out_dim(j)
        return {'k': 'dense', 'in': S, 'blocks': {'shared': block(i, j)}, 'subscripts': 'ij...,j...->i...',
                'default_subscripts': draw(st.booleans()), 'vdtype': vdt(draw, G, S)}
    if form == 'last':
        j = shapes[0][-1]
        i = out_dim(j)
        return {'k': 'dense', 'in': S, 'blocks': {'shared': block(i, j)}, 'subscripts': '...ij,...j->...i',
                'vdtype': vdt(draw, G, S)}
    if form in ('hij', 'ikj', 'kij'):
        h, j = shapes[0]
        i = out_dim(j)
        if form == 'hij':
            b = [block(i, j) for _ in range(h)]
            return {'k': 'dense', 'in': S, 'blocks': {'shared': b}, 'subscripts': 'hij,hj->hi', 'vdtype': vdt(draw, G, S)}
        b = np.asarray([block(i, j) for _ in range(h)], dtype=float)  # (k,i,j)
        if form == 'kij':
            return {'k': 'dense', 'in': S, 'blocks': {'shared': b.tolist()}, 'subscripts': 'kij,kj->ki',
                    'vdtype': vdt(draw, G, S)}
        return {'k': 'dense', 'in': S, 'blocks': {'shared': np.transpose(b, (1, 0, 2)).tolist()},
                'subscripts': 'ikj,kj->ki', 'vdtype': vdt(draw, G, S)}
    # per-leaf blocks, default subscripts
    bl = []
    for s in shapes:
        j = s[0]
        bl.append(block(out_dim(j), j))
    return {'k': 'dense', 'in': S, 'blocks': {'per_leaf': bl}, 'subscripts': 'ij...,j...->i...', 'vdtype': vdt(draw, G, S)}


def _spd(draw, n):
    """Small SPD matrix B^T B + c I with integer B entries in {-1,0,1}: condition number <= ~25."""
    B = np.asarray(draw(st.lists(st.sampled_from([-1, 0, 0, 1]), min_size=n * n, max_size=n * n)), dtype=float).reshape(n, n)
    c = draw(st.sampled_from([2.0, 3.0, 4.0]))
    return (B.T @ B + c * np.eye(n)).tolist()


def g_index(draw, G, S, square, forms=None):
    shapes = _shapes(S)
    n0 = min(s[0] for s in shapes)
    nl = min(s[-1] for s in shapes)
    if square:
        if len({s[0] for s in shapes}) == 1:
            perm = list(draw(st.permutations(list(range(n0)))))
            if draw(st.booleans()):
                perm = [p - n0 if draw(st.booleans()) else p for p in perm]
            return {'k': 'index', 'in': S, 'idx': [{'a': perm}], 'explicit_out': draw(st.booleans()),
                    'unique': draw(st.sampled_from([None, True])), 'bare': draw(st.booleans())}
        return {'k': 'index', 'in': S, 'idx': [{'e': 1}], 'explicit_out': False, 'unique': None}
    form = draw(st.sampled_from(forms or ['arr0', 'arr0', 'arrlast', 'slice0', 'int0', 'arr2d', 'mask0']))
    if form == 'int0' and St.size(S) // max(1, n0) < 1:
        form = 'arr0'
    if form in ('arr0', 'arrlast', 'arr2d'):
        n = n0 if form != 'arrlast' else nl
        m = draw(st.integers(1, max(1, min(4, n + 1))))
        shp = (m,)
        if form == 'arr2d':
            shp = (draw(st.integers(1, 2)), draw(st.integers(1, 2)))
        vals = draw(st.lists(st.integers(-n, n - 1), min_size=math.prod(shp), max_size=math.prod(shp)))
        # structured values, the shapes a fast path would test for: a contiguous range; a "range" with one element
        # repeated and one skipped (same first, last and length); sorted values
        pat = draw(st.sampled_from(['iid', 'iid', 'iid', 'range', 'near_range', 'sorted']))
        cnt = len(vals)
        if pat in ('range', 'near_range') and cnt <= n:
            a0 = draw(st.integers(0, n - cnt))
            vals = list(range(a0, a0 + cnt))
            if pat == 'near_range' and cnt >= 3:
                j0 = draw(st.integers(1, cnt - 2))
                vals[j0] = vals[j0 + draw(st.sampled_from([-1, 1]))]
        elif pat == 'sorted':
            vals = sorted(v % n for v in vals)
        a = np.asarray(vals, dtype=int).reshape(shp).tolist()
        norm = [v % n for v in vals]
        uniq = len(set(norm)) == len(norm)
        unique = draw(st.sampled_from([None, None, uniq]))
        idx = [{'a': a}] if form != 'arrlast' else [{'e': 1}, {'a': a}]
        if form == 'arr0' and draw(st.integers(0, 3)) == 0:
            idx = idx + [{'e': 1}]
        return {'k': 'index', 'in': S, 'idx': idx, 'explicit_out': draw(st.booleans()), 'unique': unique,
                'bare': draw(st.booleans())}
    if form == 'slice0':
        step = draw(st.sampled_from([None, 1, 2, -1]))
        a = draw(st.one_of(st.none(), st.integers(-n0, n0)))
        b = draw(st.one_of(st.none(), st.integers(-n0, n0)))
        if any(len(range(*slice(a, b, step).indices(s[0]))) == 0 for s in shapes):
            a = b = None  # zero-sized outputs are outside the explored domain
        return {'k': 'index', 'in': S, 'idx': [{'s': [a, b, step]}], 'explicit_out': draw(st.booleans()),
                'unique': None, 'bare': draw(st.booleans())}
    if form == 'mask0':
        bits = draw(st.lists(st.booleans(), min_size=n0, max_size=n0))
        if not any(bits):
            bits[0] = True
        if len({s[0] for s in shapes}) != 1:
            return {'k': 'index', 'in': S, 'idx': [{'i': draw(st.integers(-n0, n0 - 1))}], 'explicit_out': True,
                    'unique': None}
        return {'k': 'index', 'in': S, 'idx': [{'m': bits}], 'explicit_out': True, 'unique': None,
                'bare': draw(st.booleans())}
    return {'k': 'index', 'in': S, 'idx': [{'i': draw(st.integers(-n0, n0 - 1))}],
            'explicit_out': draw(st.booleans()), 'unique': None, 'bare': draw(st.booleans())}


def g_pack(draw, G, S):
    sh = _shapes(S)[0]
    mr = draw(st.integers(1, min(2, len(sh))))
    n = math.prod(sh[:mr])
    bits = draw(st.lists(st.booleans(), min_size=n, max_size=n))
    if not any(bits):
        bits[0] = True
    return {'k': 'pack', 'in': S, 'mask': np.asarray(bits, dtype=bool).reshape(sh[:mr]).tolist()}


def g_move(draw, G, S):
    shapes = _shapes(S)
    minr = min(len(s) for s in shapes)
    same = len({len(s) for s in shapes}) == 1
    k = draw(st.integers(1, min(2, minr)))
    neg = (not same) or draw(st.booleans())
    pool = list(range(-minr, 0)) if neg else list(range(minr))
    src = list(draw(st.permutations(pool)))[:k]
    dst = list(draw(st.permutations(pool)))[:k]
    if same and draw(st.booleans()):
        # mixed signs (only meaningful when all ranks agree)
        nd = len(shapes[0])
        src = [a + nd if a < 0 and draw(st.booleans()) else a for a in src]
        dst = [a - nd if a >= 0 and draw(st.booleans()) else a for a in dst]
    if k == 1 and draw(st.booleans()):
        return {'k': 'move', 'in': S, 'src': src[0], 'dst': dst[0]}
    return {'k': 'move', 'in': S, 'src': src, 'dst': dst, 'as_list': draw(st.booleans())}


def g_ravel(draw, G, S):
    shapes = _shapes(S)
    minr = min(len(s) for s in shapes)
    same = len({len(s) for s in shapes}) == 1
    form = draw(st.sampled_from(['default', 'pos', 'neg', 'mixed']))
    if form == 'default':
        return {'k': 'ravel', 'in': S, 'first': 0, 'last': -1, 'defaults': draw(st.booleans())}
    if form == 'pos':
        f = draw(st.integers(0, minr - 1))
        l = draw(st.integers(f, minr - 1))
        return {'k': 'ravel', 'in': S, 'first': f, 'last': l}
    if form == 'neg':
        l = draw(st.integers(-minr, -1))
        f = draw(st.integers(-minr, l))
        return {'k': 'ravel', 'in': S, 'first': f, 'last': l}
    # mixed: first >= 0, last < 0, valid on every leaf: first <= ndim + last
    l = draw(st.integers(-minr, -1))
    f = draw(st.integers(0, minr + l))
    return {'k': 'ravel', 'in': S, 'first': f, 'last': l}


def _factorizations(n, maxlen=3):
    out = [[n]]
    for a in range(1, n + 1):
        if n % a == 0:
            out.append([a, n // a])
            for b in range(1, n // a + 1):
                if (n // a) % b == 0 and maxlen >= 3:
                    out.append([a, b, n // a // b])
    return out


def g_reshape(draw, G, S):
    shapes = _shapes(S)
    sizes = [math.prod(s) for s in shapes]
    if len(set(sizes)) == 1:
        f = list(draw(st.sampled_from(_factorizations(sizes[0]))))
        arg = list(f)
        if draw(st.booleans()):
            arg[draw(st.integers(0, len(arg) - 1))] = -1
        return {'k': 'reshape', 'in': S, 'shape_arg': arg, 'shape': None}
    g = 0
    for s in sizes:
        g = math.gcd(g, s)
    d = draw(st.sampled_from([x for x in range(1, g + 1) if g % x == 0]))
    arg = draw(st.sampled_from([[-1], [-1, d], [d, -1]]))
    return {'k': 'reshape', 'in': S, 'shape_arg': arg, 'shape': None}


def fix_reshape(r):
    """np_apply needs a per-leaf concrete shape; numpy's reshape handles -1 itself."""
    r['shape'] = r['shape_arg']
    return r


def g_toeplitz(draw, G, S, spd=False):
    sh = _shapes(S)[0]
    n = sh[-1]
    K = draw(st.integers(1, min(4, n + 1)))
    batch = sh[:-1]
    bshape = ()
    if batch and draw(st.booleans()):
        bshape = tuple(b if draw(st.booleans()) else 1 for b in batch)
        if draw(st.booleans()):
            bshape = bshape[draw(st.integers(0, len(bshape))):]
    band = np.asarray(_vals(draw, math.prod(bshape + (K,)), zeros=True), dtype=float).reshape(bshape + (K,))
    if spd:
        band[..., 0] = 2 * np.abs(band[..., 1:]).sum(axis=-1) + draw(st.sampled_from([1.0, 2.0]))
    method = draw(st.sampled_from(['dense', 'direct', 'fft', 'overlap_save', None]))
    fft = None
    if method in ('overlap_save', None) and draw(st.booleans()):
        fft = draw(st.integers(2 * K - 1, 4 * K + 2))
    return {'k': 'toeplitz', 'in': S, 'band': band.tolist(), 'method': method, 'fft_size': fft, 'vdtype': vdt(draw, G, S)}


def g_rot(draw, G, S):
    sh = list(S['shape'])
    forms = [[]]
    if sh:
        forms += [sh, sh[-1:], [1] * len(sh)]
        if len(sh) == 2:
            forms.append([sh[0], 1])
    ashape = draw(st.sampled_from(forms))
    n = math.prod(ashape)
    a = np.asarray(draw(st.lists(st.sampled_from(ANGLES), min_size=n, max_size=n)), dtype=float).reshape(ashape)
    return {'k': 'rot', 'in': S, 'angles': a.tolist(), 'vdtype': vdt(draw, G, S)}


def g_toast(draw, G, S):
    n = S['shape'][0]
    vals = draw(st.lists(st.sampled_from([0, 0, 0, 1, -1, 2, 0.5]), min_size=n * n, max_size=n * n))
    return {'k': 'toast', 'in': S, 'matrix': np.asarray(vals, dtype=float).reshape(n, n).tolist()}


def leaf_operand(draw, G, S, square=False, kind=None):
    if kind is None:
        kind = draw(st.sampled_from(applicable_kinds(G, S, square)))
    if kind == 'id':
        return {'k': 'id', 'in': S}
    if kind == 'hom':
        # (np_0d: a mutable 0-d numpy array, the one scalar flavour that an in-place update could corrupt)
        ty = draw(st.sampled_from(['py_float', 'py_int', 'jax_0d', 'jax_0d_weak', 'np_f32', 'np_0d']))
        v = draw(st.sampled_from(VALS))
        if ty == 'py_int':
            v = int(v) or 2
        return {'k': 'hom', 'in': S, 'value': v, 'ty': ty}
    if kind == 'diag':
        return g_diag(draw, G, S, zeros=draw(st.integers(0, 4)) == 0)
    if kind == 'bdiag':
        return g_bdiag(draw, G, S)
    if kind == 'dense':
        return g_dense(draw, G, S, square)
    if kind == 'index':
        return g_index(draw, G, S, square)
    if kind == 'pack':
        return g_pack(draw, G, S)
    if kind == 'move':
        return g_move(draw, G, S)
    if kind == 'ravel':
        return g_ravel(draw, G, S)
    if kind == 'reshape':
        return fix_reshape(g_reshape(draw, G, S))
    if kind == 'toeplitz':
        return g_toeplitz(draw, G, S)
    if kind == 'hwp':
        return {'k': 'hwp', 'in': S}
    if kind == 'rot':
        return g_rot(draw, G, S)
    if kind == 'pol':
        return {'k': 'pol', 'in': S}
    if kind == 'toast':
        return g_toast(draw, G, S)
    raise ValueError(kind)


# ---------------------------------------------------------------------------------------------
# reverse generation: an operator whose OUTPUT structure is S (used under transposes)


def rev_operand(draw, G, S, forms=None):
    """Recipe X with out(X) == S (X is generally not square)."""
    forced = forms
    shapes = _shapes(S)
    ranks = [len(s) for s in shapes]
    single = S['t'] == 'leaf'
    forms = ['square']
    if single and ranks[0] >= 1:
        forms += ['index', 'index', 'reshape', 'ravel', 'dense', 'move', 'pack']
    elif all(r >= 1 for r in ranks) and len({s[0] for s in shapes}) == 1:
        forms += ['index', 'dense']
    form = draw(st.sampled_from(forced or forms))
    if form == 'square':
        return leaf_operand(draw, G, S, square=True)
    if form == 'index':
        m = shapes[0][0]
        n = draw(st.integers(m, m + 2))
        inS = St.map_leaves(S, lambda sh, dt: ((n,) + tuple(sh[1:]), dt))
        uniq = draw(st.booleans())
        if uniq:
            vals = list(draw(st.permutations(list(range(n)))))[:m]
            vals = [v - n if draw(st.booleans()) else v for v in vals]
        else:
            vals = draw(st.lists(st.integers(-n, n - 1), min_size=m, max_size=m))
        truly = len({v % n for v in vals}) == len(vals)
        return {'k': 'index', 'in': inS, 'idx': [{'a': vals}], 'explicit_out': draw(st.booleans()),
                'unique': draw(st.sampled_from([None, truly])), 'bare': draw(st.booleans())}
    if form == 'pack':
        sh = shapes[0]
        m = sh[0]
        n = draw(st.integers(m, m + 2))
        pos = sorted(list(draw(st.permutations(list(range(n)))))[:m])
        mask = [i in pos for i in range(n)]
        return {'k': 'pack', 'in': St.leaf((n,) + tuple(sh[1:]), S['dtype']), 'mask': mask}
    if form == 'reshape':
        sh = shapes[0]
        f = list(draw(st.sampled_from(_factorizations(math.prod(sh)))))
        arg = list(sh)
        if draw(st.booleans()) and arg:
            arg[draw(st.integers(0, len(arg) - 1))] = -1
        return {'k': 'reshape', 'in': St.leaf(f, S['dtype']), 'shape_arg': arg, 'shape': list(sh)}
    if form == 'ravel':
        sh = list(shapes[0])
        pos = draw(st.integers(0, len(sh) - 1))
        f = list(draw(st.sampled_from(_factorizations(sh[pos]))))
        inshape = sh[:pos] + f + sh[pos + 1:]
        first, last = pos, pos + len(f) - 1
        if draw(st.booleans()):
            last = last - len(inshape)
        return {'k': 'ravel', 'in': St.leaf(inshape, S['dtype']), 'first': first, 'last': last}
    if form == 'move':
        sh = list(shapes[0])
        nd = len(sh)
        if nd < 2:
            return leaf_operand(draw, G, S, square=True)
        perm = list(draw(st.permutations(list(range(nd)))))
        # out = transpose(in, perm) with moveaxis(src=perm, dst=range(nd))
        inshape = [0] * nd
        for dst_ax, src_ax in enumerate(perm):
            inshape[src_ax] = sh[dst_ax]
        return {'k': 'move', 'in': St.leaf(inshape, S['dtype']), 'src': perm, 'dst': list(range(nd))}
    if form == 'dense':
        i = shapes[0][0]
        j = draw(st.integers(1, min(4, i + 2)))
        inS = St.map_leaves(S, lambda sh, dt: ((j,) + tuple(sh[1:]), dt))
        return {'k': 'dense', 'in': inS, 'blocks': {'shared': _arr(draw, (i, j))}, 'subscripts': 'ij...,j...->i...',
                'vdtype': vdt(draw, G, S)}
    raise ValueError(form)


# ---------------------------------------------------------------------------------------------
# invertible square operators


def invertible(draw, G, S, closed_only=False):
    """Square invertible operator recipe on S; returns (recipe, closed_form: bool)."""
    shapes = _shapes(S)
    forms = ['hom', 'id']
    # lineax' iterative solve does not accept mixed-dtype pytrees: lazy CG inverses only on uniform dtypes
    cg_ok = G.allow_cg and len({dt for _, dt in St.leaves(S)}) == 1
    if all(len(s) >= 1 for s in shapes):
        forms += ['diag', 'diag']
        if not closed_only and cg_ok and dense_forms(S):
            forms += ['spd_dense', 'spd_dense']
    if S['t'] == 'stokes':
        forms += ['rot', 'rot']
    if S['t'] == 'leaf' and len(shapes[0]) >= 1 and not closed_only and cg_ok:
        forms += ['spd_toeplitz']
    if S['t'] in ('tuple', 'list', 'dict'):
        forms += ['blockdiag', 'blockdiag']
    if all(len(s) >= 1 for s in shapes) and not closed_only and cg_ok:
        forms += ['spd_composite']
    form = draw(st.sampled_from(forms))
    if form == 'spd_composite':
        # an SPD *composite* (positive diagonal factors, identities, positive scalars: they commute), so that the
        # lazy inverse has to reduce its operand when it is created
        def posdiag():
            r = g_diag(draw, G, S, zeros=False)
            r['vals'] = (np.abs(np.asarray(r['vals'], dtype=float)) + 0.5).tolist()
            return r
        parts = [posdiag()]
        for _ in range(draw(st.integers(1, 3))):
            parts.append(draw(st.sampled_from(['id', 'hom', 'diag'])))
        # known finding D13: with 64-bit mode on, a weakly typed float64 scalar factor inside the operand of a lazy
        # inverse on float32 data breaks lineax' solve; excluded here by construction (strongly typed float32 scalars),
        # exhibited by C06's dedicated case
        sty = 'jax_0d' if G.mode == 'x64' else 'py_float'
        parts = [p_ if isinstance(p_, dict) else ({'k': 'id', 'in': S} if p_ == 'id' else
                 {'k': 'hom', 'in': S, 'value': draw(st.sampled_from([0.5, 2.0, 3.0])), 'ty': sty} if p_ == 'hom' else posdiag())
                 for p_ in parts]
        parts = list(draw(st.permutations(parts)))
        return {'k': 'compose', 'ops': parts, 'via': draw(st.sampled_from(['list', 'matmul'])), 'tree': _ptree(draw, len(parts))}, False
    if form == 'id':
        return {'k': 'id', 'in': S}, True
    if form == 'hom':
        return {'k': 'hom', 'in': S, 'value': draw(st.sampled_from(VALS)), 'ty': 'py_float'}, True
    if form == 'diag':
        return g_diag(draw, G, S, zeros=False), True
    if form == 'rot':
        return g_rot(draw, G, S), True
    if form == 'spd_dense':
        return g_dense(draw, G, S, square=True, spd=True), False
    if form == 'spd_toeplitz':
        return g_toeplitz(draw, G, S, spd=True), False
    if form == 'blockdiag':
        closed = True
        kids = St.children(S)

        def mk(child):
            nonlocal closed
            if child['t'] in ('tuple', 'list', 'dict'):
                r, c = invertible(draw, G, child, closed_only)
            else:
                r, c = invertible(draw, G, child, closed_only)
            closed = closed and c
            return r

        return {'k': 'block', 'kind': 'diag', 'blocks': _container_like(S, [mk(c) for c in _children_in_order(S)])}, closed
    raise ValueError(form)


def _children_in_order(S):
    if S['t'] == 'dict':
        return [it for _, it in S['items']]
    return list(S['items'])


def _container_like(S, blocks):
    """Block container mirroring the top level of the structure S (insertion order preserved)."""
    if S['t'] == 'dict':
        return {'c': 'dict', 'items': [[k, b] for (k, _), b in zip(S['items'], blocks)]}
    return {'c': S['t'], 'items': list(blocks)}


# ---------------------------------------------------------------------------------------------
# block operators


def g_block_diag(draw, G, S, depth, square=False):
    blocks = [operand(draw, G, c, depth - 1, square=square) for c in _children_in_order(S)]
    return {'k': 'block', 'kind': 'diag', 'blocks': _container_like(S, blocks)}


def g_block_col(draw, G, S, depth, k=None):
    if k is None:
        k = draw(st.integers(1, 3))
    size = St.size(S)
    k = max(1, min(k, (G.cap * 2) // max(1, size)))
    blocks = [operand(draw, G, S, depth - 1, square=draw(st.booleans())) for _ in range(k)]
    form = draw(st.sampled_from(['list', 'tuple', 'dict', 'nested', 'bare']))
    if form == 'bare' and k == 1:
        return {'k': 'block', 'kind': 'col', 'blocks': blocks[0]}
    if form == 'dict':
        keys = list(draw(st.permutations(['b', 'a', 'c'])))[:k]
        return {'k': 'block', 'kind': 'col', 'blocks': {'c': 'dict', 'items': [[key, b] for key, b in zip(keys, blocks)]}}
    if form == 'nested' and k >= 2:
        return {'k': 'block', 'kind': 'col',
                'blocks': {'c': 'dict', 'items': [['z', {'c': 'list', 'items': blocks[:-1]}], ['a', blocks[-1]]]}}
    return {'k': 'block', 'kind': 'col', 'blocks': {'c': 'tuple' if form == 'tuple' else 'list', 'items': blocks}}


def row_applicable(S):
    if S['t'] not in ('tuple', 'list', 'dict'):
        return False
    kids = _children_in_order(S)
    return all(St.equal(kids[0], c) for c in kids[1:])


def g_block_row(draw, G, S, depth):
    kids = _children_in_order(S)
    blocks = [operand(draw, G, c, depth - 1, square=True) for c in kids]
    return {'k': 'block', 'kind': 'row', 'blocks': _container_like(S, blocks)}


# ---------------------------------------------------------------------------------------------
# operands and composites


def resample(draw, r, unique=False):
    """A sibling of a leaf recipe: same kind and shapes, new numeric values (for sums)."""
    r2 = dict(r)
    k = r['k']
    if k == 'pack':
        m = np.asarray(r['mask'], dtype=bool)
        flat = list(draw(st.permutations(m.reshape(-1).tolist())))
        r2['mask'] = np.asarray(flat, dtype=bool).reshape(m.shape).tolist()
        return r2
    if k == 'index' and unique and len(r['idx']) >= 1 and 'a' in r['idx'][0]:
        n = min(sh_[0] for sh_ in _shapes(r['in']))
        shp = np.shape(r['idx'][0]['a'])
        vals = list(draw(st.permutations(list(range(n)))))[: math.prod(shp)]
        r2['idx'] = [{'a': np.asarray(vals, dtype=int).reshape(shp).tolist()}] + list(r['idx'][1:])
        r2['unique'] = True
        return r2
    if k == 'hom':
        v = draw(st.sampled_from(VALS))
        r2['value'] = (int(v) or 2) if r.get('ty') in ('py_int', 'np_i32') else v
    elif k in ('diag', 'bdiag'):
        r2['vals'] = _arr(draw, np.shape(r['vals']))
    elif k == 'dense':
        if 'shared' in r['blocks']:
            r2['blocks'] = {'shared': _arr(draw, np.shape(r['blocks']['shared']))}
        else:
            r2['blocks'] = {'per_leaf': [_arr(draw, np.shape(b)) for b in r['blocks']['per_leaf']]}
    elif k == 'index' and len(r['idx']) >= 1 and 'a' in r['idx'][0]:
        n = min(sh_[0] for sh_ in _shapes(r['in']))
        shp = np.shape(r['idx'][0]['a'])
        cnt = math.prod(shp)
        vals = draw(st.lists(st.integers(-n, n - 1), min_size=cnt, max_size=cnt))
        r2['idx'] = [{'a': np.asarray(vals, dtype=int).reshape(shp).tolist()}] + list(r['idx'][1:])
        r2['unique'] = None
    elif k == 'toeplitz':
        r2['band'] = _arr(draw, np.shape(r['band']), zeros=True)
    elif k == 'rot':
        shp = np.shape(r['angles'])
        n = math.prod(shp)
        r2['angles'] = np.asarray(draw(st.lists(st.sampled_from(ANGLES), min_size=n, max_size=n)), dtype=float).reshape(shp).tolist()
    return r2


def scalar(draw, nonzero=True):
    ty = draw(st.sampled_from(SCALAR_TYPES))
    v = draw(st.sampled_from(VALS))
    if ty in ('py_int', 'np_i32'):
        v = int(v) if int(v) != 0 else 2
    if ty == 'py_bool':
        v = True
    return v, ty


def operand(draw, G, S, depth, square=False):
    """Operator recipe with input structure S (output structure S too when square)."""
    choices = ['leaf'] * 6
    if depth > 0:
        choices += ['scale', 'neg', 'add', 'add', 'T', 'T', 'chain', 'chain']
        if S['t'] in ('tuple', 'list', 'dict'):
            choices += ['bdiagop'] * 4
            if row_applicable(S) and not square:
                choices += ['brow'] * 4
        if not square:
            choices += ['bcol'] * 2
        choices += ['inv']
    kind = draw(st.sampled_from(choices))
    if kind == 'leaf':
        return leaf_operand(draw, G, S, square)
    if kind == 'scale':
        v, ty = scalar(draw)
        form = draw(st.sampled_from(['k*A', 'A*k', 'A/k']))
        if ty == 'np_0d' and form == 'k*A':
            form = 'A*k'  # numpy's own __mul__ would pre-empt furax for an ndarray on the left
        if form == 'A/k' and ty == 'np_i32':
            ty = 'np_f32'  # 1/int32 is float64 in 64-bit mode: a parameter wider than float32 data
        return {'k': 'scale', 'op': operand(draw, G, S, depth - 1, square), 'value': v, 'ty': ty,
                'form': form}
    if kind == 'neg':
        return {'k': draw(st.sampled_from(['neg', 'neg', 'pos'])), 'op': operand(draw, G, S, depth - 1, square)}
    if kind == 'add':
        first = operand(draw, G, S, depth - 1, square=square or draw(st.booleans()))
        others = []
        for _ in range(draw(st.integers(1, 2))):
            if first['k'] in ops.LEAF_KINDS and draw(st.booleans()):
                others.append(resample(draw, first))
            elif St.equal(G.out_of(first), S):
                others.append(operand(draw, G, S, depth - 1, square=True))
            else:
                others.append(resample(draw, first) if first['k'] in ops.LEAF_KINDS else
                              {'k': 'scale', 'op': first, 'value': 2, 'ty': 'py_int', 'form': 'k*A'})
        opsl = [first] + others
        if len(opsl) == 2 and draw(st.integers(0, 3)) == 0:
            return {'k': 'sub', 'ops': opsl}
        via = draw(st.sampled_from(['list', 'plus']))
        return {'k': 'add', 'ops': opsl, 'via': via, 'tree': _ptree(draw, len(opsl))}
    if kind == 'T':
        # (transposes of the iterative-solver inverse are not supported by the library: no lazy CG inverse below a transpose)
        saved = G.allow_cg
        G.allow_cg = False
        try:
            x = operand(draw, G, S, depth - 1, square=True) if square or draw(st.booleans()) else rev_operand(draw, G, S)
        finally:
            G.allow_cg = saved
        return {'k': draw(st.sampled_from(['T', 'T', 'T', 'TG'])), 'op': x}
    if kind == 'chain':
        n = draw(st.integers(2, 3))
        return chain(draw, G, S, n, depth - 1, square=square)
    if kind == 'bdiagop':
        return g_block_diag(draw, G, S, depth, square)
    if kind == 'brow':
        return g_block_row(draw, G, S, depth)
    if kind == 'bcol':
        return g_block_col(draw, G, S, depth)
    if kind == 'inv':
        r, closed = invertible(draw, G, S)
        return {'k': 'I', 'op': r}
    raise ValueError(kind)


def _ptree(draw, n):
    """Random binary parenthesisation over leaves 0..n-1 (in order)."""
    def build(lo, hi):
        if hi - lo == 1:
            return lo
        mid = draw(st.integers(lo + 1, hi - 1))
        return [build(lo, mid), build(mid, hi)]

    return build(0, n)


# ---------------------------------------------------------------------------------------------
# pattern and near-miss snippets (returned in APPLICATION order: first element is applied first)


def snippet(draw, G, S, near=False):
    shapes = _shapes(S)
    ranks = [len(s) for s in shapes]
    names = ['identity', 'scalars', 'inverse', 'inverse']
    if S['t'] == 'stokes':
        names += ['rotrot', 'rotrot', 'rothwp', 'rothwp', 'polhwp']
    names += ['diagcol', 'rowcol']
    if S['t'] in ('tuple', 'list', 'dict'):
        names += ['diagdiag', 'diagdiag']
        if row_applicable(S):
            names += ['rowdiag', 'rowdiag']
    if all(r >= 1 for r in ranks):
        names += ['PtP', 'PtP', 'RtR', 'RRt']
        if S['t'] == 'leaf' or len({s[0] for s in shapes}) == 1:
            names += ['PPt', 'PPt']
    if all(r >= 2 for r in ranks):
        names += ['movepair', 'movepair']
    if S['t'] in ('leaf', 'stokes') and all(r >= 1 for r in ranks):
        names += ['packpair']
    name = draw(st.sampled_from(names))
    if name == 'identity':
        return [{'k': 'id', 'in': S}]
    if name == 'scalars':
        a = {'k': 'hom', 'in': S, 'value': draw(st.sampled_from(VALS)), 'ty': draw(st.sampled_from(['py_float', 'py_float', 'np_0d']))}
        b = {'k': 'hom', 'in': S, 'value': draw(st.sampled_from(VALS)), 'ty': draw(st.sampled_from(['py_float', 'jax_0d', 'np_0d']))}
        mid = [leaf_operand(draw, G, S, square=True)] if draw(st.booleans()) else []
        return [a] + mid + [b]
    if name == 'inverse':
        r, closed = invertible(draw, G, S)
        A = G.define(r)
        B = A
        if near:
            # a distinct object of the same class and structure (equal- or different-valued): the
            # identity-based rule must NOT fire
            B = G.define(resample(draw, r) if r['k'] in ops.LEAF_KINDS and draw(st.booleans()) else dict(r))
        inv = {'k': 'I', 'op': A}
        return [B, inv] if draw(st.booleans()) else [inv, B]
    if name == 'rotrot':
        a, b = g_rot(draw, G, S), g_rot(draw, G, S)
        fa = a if draw(st.booleans()) else {'k': 'T', 'op': a}
        fb = b if draw(st.booleans()) else {'k': 'T', 'op': b}
        return [fa, fb]
    if name == 'rothwp':
        a = g_rot(draw, G, S)
        fa = a if draw(st.booleans()) else {'k': 'T', 'op': a}
        return [{'k': 'hwp', 'in': S}, fa] if not near else [fa, {'k': 'hwp', 'in': S}]
    if name == 'polhwp':
        return [{'k': 'hwp', 'in': S}, {'k': 'pol', 'in': S}]
    if name == 'diagcol':
        col = g_block_col(draw, G, S, 1, k=draw(st.integers(1, 3)))
        mid = G.out_of(col)
        if near and mid['t'] in ('tuple', 'list', 'dict') and St.nleaves(mid) >= 2:
            return [col, g_block_diag_nested(draw, G, mid)]
        if mid['t'] not in ('tuple', 'list', 'dict'):
            return [col]
        return [col, g_block_diag(draw, G, mid, 1)]
    if name == 'rowcol':
        k = draw(st.integers(1, 3))
        col = _col_of_squares(draw, G, S, k)
        mid = G.out_of(col)
        if mid['t'] not in ('tuple', 'list', 'dict'):
            return [col]
        seq = [col]
        if draw(st.booleans()):
            seq.append(g_block_diag(draw, G, mid, 1, square=True))
        seq.append(g_block_row(draw, G, mid, 1))
        return seq
    if name == 'diagdiag':
        d1 = g_block_diag(draw, G, S, 1)
        mid = G.out_of(d1)
        return [d1, g_block_diag(draw, G, mid, 1)]
    if name == 'rowdiag':
        d = g_block_diag(draw, G, S, 1, square=True)
        if near:
            d = g_block_diag_nested(draw, G, S)
        return [d, g_block_row(draw, G, S, 1)]
    if name == 'PtP':
        P = g_index(draw, G, S, square=False, forms=['arr0', 'arr0', 'arrlast', 'arr2d', 'slice0'])
        ref = G.define(P)
        other = ref
        if near:
            other = G.define(resample(draw, P) if draw(st.integers(0, 3)) else dict(P))
        return [ref, {'k': 'T', 'op': other}]
    if name == 'PPt':
        if near and draw(st.booleans()):
            # P @ Q.T with Q another duplicate-free selection of the same shape: not the identity
            P = rev_operand_index(draw, G, S, unique=True)
            Q = resample(draw, P, unique=True)
            return [{'k': 'T', 'op': G.define(Q)}, G.define(P)]
        P = rev_operand_index(draw, G, S, unique=not near)
        ref = G.define(P)
        return [{'k': 'T', 'op': ref}, ref]
    if name == 'packpair':
        if draw(st.booleans()):
            # pack @ pack.T (the documented pattern): pack.T maps S to a larger space first
            sh = shapes[0]
            m = sh[0]
            n = draw(st.integers(m, m + 2))
            pos = sorted(list(draw(st.permutations(list(range(n)))))[:m])
            inS = St.map_leaves(S, lambda s_, dt: ((n,) + tuple(s_[1:]), dt))
            ref = G.define({'k': 'pack', 'in': inS, 'mask': [i in pos for i in range(n)]})
            if near:
                pos2 = sorted(list(draw(st.permutations(list(range(n)))))[:m])
                other = G.define({'k': 'pack', 'in': inS, 'mask': [i in pos2 for i in range(n)]})
                return [{'k': 'T', 'op': other}, ref]
            return [{'k': 'T', 'op': ref}, ref]
        ref = G.define(g_pack(draw, G, S))
        return [ref, {'k': 'T', 'op': ref}]
    if name == 'RtR':
        R = fix_reshape(g_reshape(draw, G, S)) if draw(st.booleans()) else g_ravel(draw, G, S)
        ref = G.define(R)
        other = ref
        if near:
            other = G.define(dict(R))
            V = G.out_of(R)
            if V['t'] == 'leaf' and draw(st.booleans()):
                # another reshape with the same OUTPUT structure but a different input structure
                for _ in range(3):
                    R2 = rev_operand(draw, G, V, forms=['reshape', 'ravel'])
                    if not St.equal(R2['in'], S):
                        other = G.define(R2)
                        break
        return [ref, {'k': 'T', 'op': other}]
    if name == 'RRt':
        if S['t'] != 'leaf':
            return [{'k': 'id', 'in': S}]
        form = draw(st.sampled_from(['reshape', 'ravel']))
        sh = shapes[0]
        if form == 'reshape':
            f = list(draw(st.sampled_from(_factorizations(math.prod(sh)))))
            R = {'k': 'reshape', 'in': St.leaf(f, S['dtype']), 'shape_arg': list(sh), 'shape': list(sh)}
        else:
            pos = draw(st.integers(0, len(sh) - 1))
            f = list(draw(st.sampled_from(_factorizations(sh[pos]))))
            inshape = list(sh[:pos]) + f + list(sh[pos + 1:])
            R = {'k': 'ravel', 'in': St.leaf(inshape, S['dtype']), 'first': pos, 'last': pos + len(f) - 1}
        ref = G.define(R)
        return [{'k': 'T', 'op': ref}, ref]
    if name == 'movepair':
        m = g_move(draw, G, S)
        mid = G.out_of(m)
        back = {'k': 'move', 'in': mid, 'src': m['dst'], 'dst': m['src']}
        if near:
            src = m['dst']
            if isinstance(src, list) and len(src) == 2:
                back = {'k': 'move', 'in': mid, 'src': [src[1], src[0]], 'dst': m['src']}
                # only well formed if the result is still typed: structure is computed, not assumed
        return [m, back]
    raise ValueError(name)


def rev_operand_index(draw, G, S, unique=True):
    shapes = _shapes(S)
    m = shapes[0][0]
    n = draw(st.integers(m, m + 2))
    inS = St.map_leaves(S, lambda sh, dt: ((n,) + tuple(sh[1:]), dt))
    if unique:
        vals = list(draw(st.permutations(list(range(n)))))[:m]
        vals = [v - n if draw(st.booleans()) else v for v in vals]
        flag = True
    else:
        vals = draw(st.lists(st.integers(-n, n - 1), min_size=m, max_size=m))
        flag = draw(st.sampled_from([None, len({v % n for v in vals}) == len(vals)]))
    return {'k': 'index', 'in': inS, 'idx': [{'a': vals}], 'explicit_out': draw(st.booleans()), 'unique': flag,
            'bare': draw(st.booleans())}


def _col_of_squares(draw, G, S, k):
    blocks = [operand(draw, G, S, 0, square=True) for _ in range(k)]
    form = draw(st.sampled_from(['list', 'tuple', 'dict']))
    if form == 'dict':
        keys = list(draw(st.permutations(['b', 'a', 'c'])))[:k]
        return {'k': 'block', 'kind': 'col', 'blocks': {'c': 'dict', 'items': [[key, b] for key, b in zip(keys, blocks)]}}
    return {'k': 'block', 'kind': 'col', 'blocks': {'c': form, 'items': blocks}}


def g_block_diag_nested(draw, G, S):
    """Block diagonal over S whose container is nested differently from a flat one: the first two
    children are handled by ONE inner block operator (a well-typed product, but not the same layout)."""
    kids = _children_in_order(S)
    if S['t'] == 'dict' or len(kids) < 2:
        return g_block_diag(draw, G, S, 1, square=True)
    # a single block whose input is the whole structure S: BlockDiagonal over S's children
    inner = {'k': 'block', 'kind': 'diag',
             'blocks': _container_like(S, [leaf_operand(draw, G, c, square=True) for c in kids])}
    # wrap: a block diagonal with a bare (container-less) block
    return {'k': 'block', 'kind': 'diag', 'blocks': inner}


def chain(draw, G, S, n, depth, square=False, weights=(5, 3, 2)):
    """Composition recipe with input structure S made of about n operands."""
    seq = []  # application order
    cur = S
    pool = ['rand'] * weights[0] + ['pat'] * weights[1] + ['near'] * weights[2]
    while len(seq) < n:
        src = draw(st.sampled_from(pool))
        if src == 'rand' or square:
            o = operand(draw, G, cur, depth, square=square)
            seq.append(o)
            cur = G.out_of(o)
        else:
            for o in snippet(draw, G, cur, near=(src == 'near')):
                seq.append(o)
                cur = G.out_of(o)
        if St.size(cur) > 3 * G.cap:
            break
    opsl = list(reversed(seq))
    if len(opsl) == 1:
        return opsl[0]
    via = draw(st.sampled_from(['list', 'list', 'matmul']))
    return {'k': 'compose', 'ops': opsl, 'via': via, 'tree': _ptree(draw, len(opsl))}


@st.composite
def expression_case(draw, mode, cap=24, max_len=6, depth=2, kinds=None, allow_cg=True, struct_kinds=None):
    G = GenCtx(mode, cap=cap, kinds=kinds, allow_cg=allow_cg)
    kw = {}
    if struct_kinds is not None:
        kw['kinds'] = struct_kinds
    S = draw(structure(mode, cap=cap, **kw))
    top = draw(st.sampled_from(['chain', 'chain', 'chain', 'operand']))
    if top == 'chain':
        expr = chain(draw, G, S, draw(st.integers(2, max_len)), depth - 1)
    else:
        expr = operand(draw, G, S, depth)
    probe = draw(st.lists(st.integers(0, 1000), min_size=8, max_size=8))
    return {'defs': G.defs, 'expr': expr, 'probe': probe}
