"""Per-property execution plan: shards per 64-bit mode, examples per shard and soft time budgets.

'examples' is the number of Hypothesis examples *per shard*; the worker stops early (and says so in
the evidence) when the soft budget (seconds) is exhausted after at least 10% of them.
"""

DEFAULT_SHARDS = {'x32': 8, 'x64': 8}


def _p(shards=None, quick=200, thorough=4000, qbudget=70, tbudget=1200, **kw):
    d = {
        'shards': shards or DEFAULT_SHARDS,
        'quick': {'examples': quick, 'budget': qbudget},
        'thorough': {'examples': thorough, 'budget': tbudget},
    }
    d.update(kw)
    return d


RULES13 = ['InverseBinaryRule', 'BlockRowBlockDiagonalRule', 'BlockDiagonalBlockColumnRule',
           'BlockDiagonalBlockDiagonalRule', 'BlockRowBlockColumnRule', 'IndexTransposeRule', 'TransposeIndexRule',
           'MoveAxisInverseRule', 'ReshapeInverseRule', 'PackUnpackRule', 'QURotationRule', 'QURotationHWPRule',
           'LinearPolarizerHWPRule']

PLAN = {
    'C20': _p(quick=220, thorough=20000),
    'C19': _p(shards={'x32': 14, 'x64': 2}, quick=220, thorough=6000, qbudget=70, tbudget=1200),
    'C18': _p(quick=70, thorough=1500, qbudget=75, tbudget=1200),
    'C17': _p(shards={'x32': 8, 'x64': 8}, quick=150, thorough=4000,
              exhaustive_scope='the enumerated small maps of the sweep (see coverage.extra.sweep_box)'),
    'C16': _p(shards={'x32': 5, 'x64': 11}, quick=36, thorough=280, qbudget=75, tbudget=1200),
    'C08': _p(quick=110, thorough=12000,
              required_classes={'thorough': ['class:AdditionOperator', 'class:BlockColumnOperator', 'class:BlockDiagonalOperator', 'class:BlockRowOperator', 'class:BroadcastDiagonalOperator', 'class:CompositionOperator', 'class:DenseBlockDiagonalOperator', 'class:DiagonalInverseOperator', 'class:DiagonalOperator', 'class:HWPOperator', 'class:HomothetyOperator', 'class:IdentityOperator', 'class:IndexOperator', 'class:InverseOperator', 'class:LinearPolarizerOperator', 'class:MoveAxisOperator', 'class:PackOperator', 'class:QURotationOperator', 'class:QURotationTransposeOperator', 'class:RavelOperator', 'class:ReshapeOperator', 'class:ReshapeTransposeOperator', 'class:SymmetricBandToeplitzOperator', 'class:ToastObservationMatrixOperator', 'class:ToastObservationMatrixTransposeOperator', 'class:TransposeOperator']}),
    'C06': _p(quick=50, thorough=800),
    'C15': _p(quick=180, thorough=12000),
    'C09': _p(quick=16, thorough=120, qbudget=80, tbudget=1200,
              required_classes={'all': ['partial_last_block', 'multi_block', 'K>n', 'K=1', 'fft=2K-1', 'broadcast_band',
                                        'default_fft', 'batched']},
              exhaustive_scope='thorough tier only: the enumerated box of the sweep (see coverage.extra.sweep_box)'),
    'C14': _p(shards={'x32': 12, 'x64': 4}, quick=110, thorough=2500,
              exhaustive_scope='layer 1 only: every string of the stated grammar over {h,i,j,k} (2 217 984 strings; the ones furax rejects outside the must-accept class are counted, the others judged)'),
    'C13': _p(shards={'x32': 10, 'x64': 6}, quick=150, thorough=8000,
              exhaustive_scope='the enumerated box of the sweep (see coverage.extra.sweep_box), not the Hypothesis part'),
    'C11': _p(shards={'x32': 10, 'x64': 6}, quick=150, thorough=8000,
              exhaustive_scope='the enumerated box of the sweep (see coverage.extra.sweep_box), not the Hypothesis part'),
    'C07': _p(shards={'x32': 12, 'x64': 4}, quick=110, thorough=4000,
              required_classes={'all': ['rule:' + r for r in RULES13] + ['rule:IdentityRule', 'rule:HomothetyRule']}),
    'C10': _p(quick=90, thorough=850),
    'C05': _p(quick=90, thorough=3000),
    'C03': _p(quick=70, thorough=700),
    'C04': _p(quick=60, thorough=900),
    'C02': _p(quick=110, thorough=2750),
    'C01': _p(quick=75, thorough=850,
              required_classes={'all': ['rule:' + r for r in RULES13] + ['rule:IdentityRule', 'rule:HomothetyRule']}),
    'C12': _p(quick=150, thorough=2500,
              required_classes={'all': ['explicit_out', 'inferred_out', 'pack', 'mask', 'multi_array',
                                        'rank2_array', 'neg_or_repeated_array', 'ellipsis_then_entries',
                                        'PPt->I', 'PtP->diag', 'multi_leaf']}),
}
