"""Property-based verification library for CMBSciPol/furax (see /verif/DESIGN.md)."""
