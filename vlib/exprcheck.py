"""Helpers shared by the expression-engine checks (C01-C05, C08, C10, C18)."""

from __future__ import annotations

import numpy as np

from . import ops
from . import structs as St
from .common import Violation, must_not_raise


def eps_of(den) -> float:
    if 'p32' in den.flags:
        return float(np.finfo(np.float32).eps)
    return St.narrowest_eps(den.in_S, den.out_S)


def kinds_in(r, defs, acc=None):
    """Multiset of recipe kinds in an expression (refs resolved once)."""
    if acc is None:
        acc = {}
    k = r['k']
    if k == 'ref':
        return kinds_in(defs[r['i']], defs, acc)
    acc[k] = acc.get(k, 0) + 1
    if k in ('compose', 'add', 'sub'):
        for o in r['ops']:
            kinds_in(o, defs, acc)
    elif k in ('scale', 'neg', 'pos', 'reduced', 'T', 'TG', 'I'):
        kinds_in(r['op'], defs, acc)
    elif k == 'block':
        acc['block_' + r['kind']] = acc.get('block_' + r['kind'], 0) + 1
        for b in ops._block_leaves(r['blocks']):
            kinds_in(b, defs, acc)
    return acc


def compare_with_den(op, den, probe, key, c_extra=0.0, max_basis=16, factor=1.0):
    """op(x) == den.M x within the forward error bound, on probe vectors."""
    n = den.M.shape[1]
    eps = eps_of(den)
    for x in ops.probes(n, probe, max_basis=max_basis):
        got, raw = must_not_raise(key + ':mv', ops.apply_flat, op, den.in_S, x)
        want = den.M @ x
        if got.shape != want.shape:
            raise Violation(key + ':size', f'result has {got.size} elements, expected {want.size}')
        tol = factor * ops.tolerance(den, np.abs(x), eps, c_extra)
        bad = np.abs(got - want) > tol
        if bad.any() or not np.all(np.isfinite(got)):
            i = int(np.argmax(np.abs(got - want) - tol))
            raise Violation(key, f'element {i}: got {got[i]!r} want {want[i]!r} tol {tol[i]:.3g}; x={x[:8]}')


def compare_ops(op1, op2, den, probe, key, max_basis=16, factor=2.0):
    """Two furax operators agree on probe vectors (tolerance from the reference's scale)."""
    n = den.M.shape[1]
    eps = eps_of(den)
    for x in ops.probes(n, probe, max_basis=max_basis):
        a, ra = must_not_raise(key + ':mv1', ops.apply_flat, op1, den.in_S, x)
        b, rb = must_not_raise(key + ':mv2', ops.apply_flat, op2, den.in_S, x)
        if a.shape != b.shape:
            raise Violation(key + ':size', f'results have {a.size} and {b.size} elements')
        tol = factor * ops.tolerance(den, np.abs(x), eps)
        d = np.abs(a - b)
        if (d > tol).any() or not np.all(np.isfinite(b)):
            i = int(np.argmax(d - tol))
            raise Violation(key, f'element {i}: {a[i]!r} vs {b[i]!r} (reference {float((den.M @ x)[i])!r}) '
                                 f'tol {tol[i]:.3g}; x={x[:8]}')


def check_structures(op, den, key):
    ins = must_not_raise(key + ':in_structure', op.in_structure)
    outs = must_not_raise(key + ':out_structure', op.out_structure)
    if not St.same_structure(den.in_S, ins):
        raise Violation(key + ':in_structure', f'declared {St.describe(ins)}; expected {St.describe(St.to_jax(den.in_S))}')
    if not St.same_structure(den.out_S, outs):
        raise Violation(key + ':out_structure', f'declared {St.describe(outs)}; expected {St.describe(St.to_jax(den.out_S))}')


def same_declared(op1, op2, key):
    import jax

    for name in ('in_structure', 'out_structure'):
        s1 = must_not_raise(f'{key}:{name}', getattr(op1, name))
        s2 = must_not_raise(f'{key}:{name}', getattr(op2, name))
        l1, t1 = jax.tree.flatten(s1)
        l2, t2 = jax.tree.flatten(s2)
        ok = t1 == t2 and len(l1) == len(l2) and all(
            tuple(a.shape) == tuple(b.shape) and np.dtype(a.dtype) == np.dtype(b.dtype) for a, b in zip(l1, l2))
        if not ok:
            raise Violation(f'{key}:{name}', f'{St.describe(s1)} != {St.describe(s2)}')
