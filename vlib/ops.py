"""Operator recipes: plain JSON data -> furax object (build) and -> numpy denotation (denote).

A *case* is {"defs": [recipe, ...], "expr": recipe}; {"k":"ref","i":j} refers to defs[j] (the very
same Python object after building: this is how identity-based patterns A.I @ A, P @ P.T are made).

The numpy side never imports furax or JAX.
"""

from __future__ import annotations

import itertools
import math
import os

import numpy as np

from . import structs as St

LEAF_KINDS = (
    'id', 'hom', 'diag', 'bdiag', 'dense', 'index', 'pack', 'move', 'ravel', 'reshape',
    'toeplitz', 'hwp', 'rot', 'pol', 'toast',
)


# =============================================================================================
# numpy semantics of leaf kinds


def _idx_np(items):
    out = []
    for it in items:
        if 'i' in it:
            out.append(int(it['i']))
        elif 's' in it:
            out.append(slice(*it['s']))
        elif 'e' in it:
            out.append(Ellipsis)
        elif 'a' in it:
            out.append(np.asarray(it['a'], dtype=np.int64))
        elif 'm' in it:
            out.append(np.asarray(it['m'], dtype=bool))
        else:
            raise ValueError(it)
    return tuple(out)


def diag_axes(vals_ndim: int, axis):
    """The documented meaning of axis_destination."""
    if isinstance(axis, int):
        if axis >= 0:
            return tuple(range(axis, axis + vals_ndim))
        return tuple(range(axis - vals_ndim + 1, axis + 1))
    return tuple(int(a) for a in axis)


def diag_place(vals: np.ndarray, axis, x_shape):
    """(values laid out on the broadcast result's axes, expanded input shape) by explicit loops.

    Raises ValueError for duplicated axes / wrong number of axes.
    """
    axes = diag_axes(vals.ndim, axis)
    if len(axes) != vals.ndim:
        raise ValueError('number of axes')
    nd = len(x_shape)
    axes_n = [a if a >= 0 else nd + a for a in axes]
    if len(set(axes_n)) != len(axes_n):
        raise ValueError('duplicated axes')
    left = -min(0, min(axes_n))
    right = max(0, max(axes_n) - nd + 1)
    total = left + nd + right
    pos = [a + left for a in axes_n]
    vshape = [1] * total
    for i, p in enumerate(pos):
        vshape[p] = vals.shape[i]
    v_exp = np.zeros(vshape, dtype=np.float64)
    for idx in np.ndindex(*vshape):
        v_exp[idx] = vals[tuple(idx[p] for p in pos)]
    x_exp_shape = tuple(x_shape) + (1,) * right  # numpy pads on the left by itself
    return v_exp, x_exp_shape


def diag_apply(vals, axis, x, strict: bool):
    v_exp, xs = diag_place(np.asarray(vals, dtype=np.float64), axis, x.shape)
    out_shape = np.broadcast_shapes(v_exp.shape, xs)
    if strict and tuple(out_shape) != tuple(x.shape):
        raise ValueError('shape changed')
    return v_exp * x.reshape(xs)


def toeplitz_matrix(band, n: int) -> np.ndarray:
    band = np.asarray(band, dtype=np.float64)
    K = band.shape[-1]
    T = np.zeros((n, n))
    for i in range(n):
        for j in range(n):
            d = abs(i - j)
            if d < K:
                T[i, j] = band[d]
    return T


def toeplitz_apply(band, x):
    band = np.asarray(band, dtype=np.float64)
    n = x.shape[-1]
    bshape = np.broadcast_shapes(band.shape[:-1], x.shape[:-1])
    xb = np.broadcast_to(x, bshape + (n,))
    bb = np.broadcast_to(band, bshape + (band.shape[-1],))
    out = np.zeros(bshape + (n,))
    for idx in np.ndindex(*bshape):
        out[idx] = toeplitz_matrix(bb[idx], n) @ xb[idx]
    return out


def ravel_shape(shape, first, last):
    nd = len(shape)
    f = nd + first if first < 0 else first
    l = nd + last if last < 0 else last
    if f > l:
        raise ValueError('first after last')
    if f == l:
        return tuple(shape)
    return tuple(shape[:f]) + (math.prod(shape[f : l + 1]),) + tuple(shape[l + 1 :])


def mueller_apply(kind, r, leaves):
    """HWP / rotation / polariser on the Stokes components present (order i,q,u,v)."""
    k = r['k']
    comp = dict(zip(kind.lower(), leaves))
    if k == 'hwp':
        out = dict(comp)
        if 'u' in out:
            out['u'] = -out['u']
        if 'v' in out:
            out['v'] = -out['v']
        return [out[c] for c in kind.lower()]
    if k == 'rot':
        if kind == 'I':
            return list(leaves)
        a = np.asarray(r['angles'], dtype=np.float64)
        c, s = np.cos(2 * a), np.sin(2 * a)
        out = dict(comp)
        out['q'] = comp['q'] * c - comp['u'] * s
        out['u'] = comp['q'] * s + comp['u'] * c
        return [out[c_] for c_ in kind.lower()]
    if k == 'pol':
        if kind == 'I':
            return [0.5 * comp['i']]
        if kind == 'QU':
            return [0.5 * comp['q']]
        return [0.5 * (comp['i'] + comp['q'])]
    raise ValueError(k)


def np_apply(r, leaves):
    """Apply leaf recipe r to numpy leaves (JAX flatten order) -> output leaves."""
    k = r['k']
    if k == 'id':
        return [x.copy() for x in leaves]
    if k == 'hom':
        return [scalar_float(r['value'], r.get('ty', 'py_float')) * x for x in leaves]
    if k in ('diag', 'bdiag'):
        return [diag_apply(r['vals'], _axis(r['axis']), x, k == 'diag') for x in leaves]
    if k == 'dense':
        if 'shared' in r['blocks']:
            b = np.asarray(r['blocks']['shared'], dtype=np.float64)
            return [np.einsum(r['subscripts'].replace(' ', ''), b, x) for x in leaves]
        bs = [np.asarray(b, dtype=np.float64) for b in r['blocks']['per_leaf']]
        return [np.einsum(r['subscripts'].replace(' ', ''), b, x) for b, x in zip(bs, leaves)]
    if k == 'index':
        idx = _idx_np(r['idx'])
        return [np.asarray(x[idx]) for x in leaves]
    if k == 'pack':
        m = np.asarray(r['mask'], dtype=bool)
        return [x[m] for x in leaves]
    if k == 'move':
        return [np.moveaxis(x, _axis(r['src']), _axis(r['dst'])) for x in leaves]
    if k == 'ravel':
        return [x.reshape(ravel_shape(x.shape, r['first'], r['last'])) for x in leaves]
    if k == 'reshape':
        return [x.reshape(tuple(r['shape'])) for x in leaves]
    if k == 'toeplitz':
        return [toeplitz_apply(r['band'], x) for x in leaves]
    if k in ('hwp', 'rot', 'pol'):
        return mueller_apply(r['in']['kind'], r, leaves)
    if k == 'toast':
        M = np.asarray(r['matrix'], dtype=np.float64)
        return [M @ x for x in leaves]
    raise ValueError(k)


def scalar_float(v, ty) -> float:
    """The numeric value furax receives for a scalar recipe (integer flavours truncate)."""
    if ty in ('py_int', 'np_i32'):
        return float(int(v))
    if ty == 'py_bool':
        return float(bool(v))
    return float(v)


def _axis(a):
    if isinstance(a, (list, tuple)):
        return tuple(int(v) for v in a)
    return int(a)


# =============================================================================================
# structure rules (pure python)


def leaf_out(r):
    S = r['in']
    k = r['k']
    if k in ('id', 'hom', 'diag', 'hwp', 'rot', 'toeplitz', 'toast'):
        return S
    if k == 'pol':
        return St.leaf(S['shape'], S['dtype'])
    if k == 'dense' and 'per_leaf' in r['blocks']:
        shapes = []
        for (sh, dt), b in zip(St.leaves(S), r['blocks']['per_leaf']):
            y = np.einsum(r['subscripts'].replace(' ', ''), np.zeros(np.shape(b)), np.zeros(sh))
            shapes.append((y.shape, dt))
        return St.replace_leaves(S, shapes)

    def f(sh, dt):
        y = np_apply(r, [np.zeros(sh)])[0]
        return tuple(y.shape), dt

    return St.map_leaves(S, f)


def in_of(r, defs):
    k = r['k']
    if k in LEAF_KINDS:
        return r['in']
    if k == 'ref':
        return in_of(defs[r['i']], defs)
    if k == 'compose':
        return in_of(r['ops'][-1], defs)
    if k in ('add', 'sub'):
        return in_of(r['ops'][0], defs)
    if k in ('scale', 'neg', 'pos', 'reduced'):
        return in_of(r['op'], defs)
    if k in ('T', 'TG', 'I'):
        return out_of(r['op'], defs)
    if k == 'block':
        if r['kind'] == 'col':
            return in_of(_block_leaves(r['blocks'])[0], defs)
        return _cmap(r['blocks'], lambda b: in_of(b, defs))
    raise ValueError(k)


def out_of(r, defs):
    k = r['k']
    if k in LEAF_KINDS:
        return leaf_out(r)
    if k == 'ref':
        return out_of(defs[r['i']], defs)
    if k == 'compose':
        return out_of(r['ops'][0], defs)
    if k in ('add', 'sub'):
        return out_of(r['ops'][0], defs)
    if k in ('scale', 'neg', 'pos', 'reduced'):
        return out_of(r['op'], defs)
    if k in ('T', 'TG', 'I'):
        return in_of(r['op'], defs)
    if k == 'block':
        if r['kind'] == 'row':
            return out_of(_block_leaves(r['blocks'])[0], defs)
        return _cmap(r['blocks'], lambda b: out_of(b, defs))
    raise ValueError(k)


def _is_op(c):
    return isinstance(c, dict) and 'k' in c


def _cmap(c, f):
    """Map block container of op recipes to a structure recipe container."""
    if _is_op(c):
        return f(c)
    t = c['c']
    if t in ('tuple', 'list'):
        return {'t': t, 'items': [_cmap(it, f) for it in c['items']]}
    if t == 'dict':
        return {'t': 'dict', 'items': [[k, _cmap(it, f)] for k, it in c['items']]}
    raise ValueError(t)


def _block_leaves(c):
    """Block op recipes in JAX flatten order."""
    if _is_op(c):
        return [c]
    t = c['c']
    if t in ('tuple', 'list'):
        return [l for it in c['items'] for l in _block_leaves(it)]
    if t == 'dict':
        return [l for k, it in sorted(c['items'], key=lambda kv: kv[0]) for l in _block_leaves(it)]
    raise ValueError(t)


def container_depth(c) -> int:
    if _is_op(c):
        return 0
    return 1 + max((container_depth(it if c['c'] != 'dict' else it[1]) for it in c['items']), default=0)


# =============================================================================================
# numpy denotation


P32_SCALARS = ('np_f32', 'np_0d', 'jax_0d', 'np_i32')


class Den:
    __slots__ = ('M', 'A', 'in_S', 'out_S', 'flags', 'nf')

    def __init__(self, M, A, in_S, out_S, flags=(), nf=1):
        self.M, self.A, self.in_S, self.out_S = M, A, in_S, out_S
        self.flags = set(flags)
        self.nf = nf


def leaf_matrix(r) -> np.ndarray:
    in_S = r['in']
    n = St.size(in_S)
    out_S = leaf_out(r)
    m = St.size(out_S)
    M = np.zeros((m, n))
    e = np.zeros(n)
    for j in range(n):
        e[:] = 0
        e[j] = 1
        outs = np_apply(r, St.np_leaves_from_flat(in_S, e))
        M[:, j] = np.concatenate([np.asarray(o, dtype=np.float64).reshape(-1) for o in outs]) if outs else 0
    return M


def closed_form_inverse(r, defs) -> bool:
    """Does furax have a closed form for the inverse of this operator (no iterative solve)?"""
    k = r['k']
    if k == 'ref':
        return closed_form_inverse(defs[r['i']], defs)
    if k in ('id', 'hom', 'diag', 'rot', 'move'):
        return True
    if k == 'I':
        return True  # inverse of a lazy/closed inverse is the operator itself
    if k == 'T':
        inner = r['op']
        while inner['k'] == 'ref':
            inner = defs[inner['i']]
        return inner['k'] in ('id', 'hom', 'diag', 'rot', 'move')
    if k == 'block' and r['kind'] == 'diag':
        return all(closed_form_inverse(b, defs) for b in _block_leaves(r['blocks']))
    if k == 'reduced':
        return closed_form_inverse(r['op'], defs)
    return False


def denote(r, defs, memo=None) -> Den:
    if memo is None:
        memo = {}
    k = r['k']
    if k == 'ref':
        i = r['i']
        if i not in memo:
            memo[i] = denote(defs[i], defs, memo)
        return memo[i]
    if k in LEAF_KINDS:
        M = leaf_matrix(r)
        flags = set()
        if k == 'rot' and r['in']['kind'] != 'I':
            flags.add('trig')
        if k == 'toeplitz' and (r.get('method') or 'overlap_save') in ('fft', 'overlap_save'):
            flags.add('fft')
        if k in ('diag', 'bdiag', 'dense', 'toeplitz', 'rot') and r.get('vdtype', 'float32') == 'float32':
            flags.add('p32')  # float32 parameters: anything derived from them (1/d, cos, FFT) is float32-accurate
        if k == 'hom' and r.get('ty', 'py_float') in P32_SCALARS:
            flags.add('p32')
        A = np.abs(M)
        if 'trig' in flags:
            # the rounding error of cos/sin is relative to 1, not to the (possibly tiny) entry
            r2 = dict(r, angles=(np.asarray(r['angles'], dtype=float) + 0.3).tolist())
            A = np.maximum(A, (np.abs(M) + np.abs(leaf_matrix(r2)) > 0).astype(float))
        if 'fft' in flags:
            # FFT round-off spreads over the whole row of a Toeplitz block
            n = r['in']['shape'][-1]
            bmax = float(np.abs(np.asarray(r['band'], dtype=float)).sum(axis=-1).max())
            for i in range(A.shape[0]):
                b = (i // n) * n
                A[i, b : b + n] = np.maximum(A[i, b : b + n], bmax)
        return Den(M, A, r['in'], leaf_out(r), flags, 1)
    if k == 'compose':
        ds = [denote(o, defs, memo) for o in r['ops']]
        M, A = ds[0].M, ds[0].A
        for d in ds[1:]:
            M = M @ d.M
            A = A @ d.A
        fl = set().union(*[d.flags for d in ds])
        return Den(M, A, ds[-1].in_S, ds[0].out_S, fl, sum(d.nf for d in ds))
    if k in ('add', 'sub'):
        ds = [denote(o, defs, memo) for o in r['ops']]
        sign = -1.0 if k == 'sub' else 1.0
        M, A = ds[0].M.copy(), ds[0].A.copy()
        for d in ds[1:]:
            M = M + sign * d.M
            A = A + d.A
        fl = set().union(*[d.flags for d in ds])
        return Den(M, A, ds[0].in_S, ds[0].out_S, fl, max(d.nf for d in ds) + 1)
    if k == 'scale':
        d = denote(r['op'], defs, memo)
        v = scalar_float(r['value'], r.get('ty', 'py_float'))
        f = 1.0 / v if r['form'] == 'A/k' else v
        fl = set(d.flags)
        if r.get('ty', 'py_float') in P32_SCALARS:
            fl.add('p32')
        return Den(f * d.M, abs(f) * d.A, d.in_S, d.out_S, fl, d.nf + 1)
    if k == 'neg':
        d = denote(r['op'], defs, memo)
        return Den(-d.M, d.A, d.in_S, d.out_S, d.flags, d.nf + 1)
    if k in ('pos', 'reduced'):
        return denote(r['op'], defs, memo)
    if k in ('T', 'TG'):
        d = denote(r['op'], defs, memo)
        return Den(d.M.T.copy(), d.A.T.copy(), d.out_S, d.in_S, d.flags, d.nf)
    if k == 'I':
        d = denote(r['op'], defs, memo)
        inner = r['op']
        while inner['k'] in ('ref', 'reduced', 'pos'):
            inner = defs[inner['i']] if inner['k'] == 'ref' else inner['op']
        if inner['k'] == 'block' and inner['kind'] == 'diag':
            # block-wise (pseudo-)inverse
            parts = [denote({'k': 'I', 'op': b}, defs, memo) for b in _block_leaves(inner['blocks'])]
            fl = set().union(*[p_.flags for p_ in parts])
            return Den(_block_diag([p_.M for p_ in parts]), _block_diag([p_.A for p_ in parts]), d.out_S, d.in_S,
                       fl, max(p_.nf for p_ in parts))
        if inner['k'] == 'diag':
            dg = np.diag(d.M)
            with np.errstate(divide='ignore'):
                inv = np.where(dg != 0, 1.0 / np.where(dg != 0, dg, 1.0), 0.0)
            Mi = np.diag(inv)
        else:
            Mi = np.linalg.inv(d.M)
        fl = set(d.flags)
        if not closed_form_inverse(inner, defs):
            fl.add('cg')
        Ai = np.abs(Mi)
        if 'trig' in fl:
            Ai = np.maximum(Ai, d.A.T)  # rotations: the inverse is the transpose, same error scale
        return Den(Mi, Ai, d.out_S, d.in_S, fl, d.nf + 1)
    if k == 'block':
        bl = [denote(b, defs, memo) for b in _block_leaves(r['blocks'])]
        fl = set().union(*[d.flags for d in bl])
        nf = max(d.nf for d in bl) + (1 if r['kind'] == 'row' else 0)
        if r['kind'] == 'row':
            return Den(np.hstack([d.M for d in bl]), np.hstack([d.A for d in bl]),
                       in_of(r, defs), out_of(r, defs), fl, nf)
        if r['kind'] == 'col':
            return Den(np.vstack([d.M for d in bl]), np.vstack([d.A for d in bl]),
                       in_of(r, defs), out_of(r, defs), fl, nf)
        return Den(_block_diag([d.M for d in bl]), _block_diag([d.A for d in bl]),
                   in_of(r, defs), out_of(r, defs), fl, nf)
    raise ValueError(k)


def _block_diag(ms):
    r = sum(m.shape[0] for m in ms)
    c = sum(m.shape[1] for m in ms)
    out = np.zeros((r, c))
    i = j = 0
    for m in ms:
        out[i : i + m.shape[0], j : j + m.shape[1]] = m
        i += m.shape[0]
        j += m.shape[1]
    return out


def denote_case(case) -> Den:
    return denote(case['expr'], case.get('defs', []), {})


# =============================================================================================
# furax side


def jarr(nested, dtype):
    import jax.numpy as jnp

    return jnp.asarray(np.asarray(nested), dtype=jnp.dtype(dtype))


def scalar_value(v, ty):
    """A 'scalar' of the requested flavour."""
    import jax.numpy as jnp

    if ty == 'py_int':
        return int(v)
    if ty == 'py_float':
        return float(v)
    if ty == 'py_bool':
        return bool(v)
    if ty == 'np_f32':
        return np.float32(v)
    if ty == 'np_f64':
        return np.float64(v)
    if ty == 'np_i32':
        return np.int32(v)
    if ty == 'np_0d':
        return np.asarray(v, dtype=np.float32)
    if ty == 'jax_0d':
        return jnp.asarray(v, dtype=jnp.float32)
    if ty == 'jax_0d_weak':
        return jnp.asarray(float(v))
    raise ValueError(ty)


def _idx_jax(items):
    import jax.numpy as jnp

    out = []
    for it in items:
        if 'i' in it:
            out.append(int(it['i']))
        elif 's' in it:
            out.append(slice(*it['s']))
        elif 'e' in it:
            out.append(Ellipsis)
        elif 'a' in it:
            out.append(jnp.asarray(np.asarray(it['a'], dtype=np.dtype(it.get('dt', 'int32')))))
        elif 'm' in it:
            out.append(jnp.asarray(np.asarray(it['m'], dtype=bool)))
    return tuple(out)


_QUIET = None


def quiet_config():
    from furax import Config

    return Config(solver_callback=_quiet_cb)


def _quiet_cb(solution):
    return None


class Builder:
    """Builds furax objects from recipes; defs are built once and shared by identity."""

    def __init__(self, defs=()):
        self.defs = list(defs)
        self.built: dict[int, object] = {}

    def build_case(self, case):
        self.defs = list(case.get('defs', []))
        self.built = {}
        return self.build(case['expr'])

    def build(self, r):
        import jax
        import jax.numpy as jnp

        from furax._base import axes, blocks, core, dense, diagonal, indices, linear

        k = r['k']
        if k == 'ref':
            i = r['i']
            if i not in self.built:
                self.built[i] = self.build(self.defs[i])
            return self.built[i]
        if k in LEAF_KINDS:
            S = St.to_jax(r['in'])
        if k == 'id':
            return core.IdentityOperator(S)
        if k == 'hom':
            return core.HomothetyOperator(scalar_value(r['value'], r.get('ty', 'py_float')), S)
        if k in ('diag', 'bdiag'):
            cls = diagonal.DiagonalOperator if k == 'diag' else diagonal.BroadcastDiagonalOperator
            ax = r['axis']
            ax = tuple(ax) if isinstance(ax, list) else ax
            if r.get('axis_as_list') and isinstance(ax, tuple):
                ax = list(ax)
            return cls(jarr(r['vals'], r.get('vdtype', 'float32')), axis_destination=ax, in_structure=S)
        if k == 'dense':
            vd = r.get('vdtype', 'float32')
            if 'shared' in r['blocks']:
                b = jarr(r['blocks']['shared'], vd)
            else:
                td = jax.tree.structure(S)
                b = jax.tree.unflatten(td, [jarr(x, vd) for x in r['blocks']['per_leaf']])
            if r.get('default_subscripts'):
                return dense.DenseBlockDiagonalOperator(b, S)
            return dense.DenseBlockDiagonalOperator(b, S, r['subscripts'])
        if k == 'index':
            idx = _idx_jax(r['idx'])
            if len(idx) == 1 and r.get('bare'):
                idx = idx[0]
            kw = {}
            if r.get('explicit_out'):
                kw['out_structure'] = St.to_jax(leaf_out(r))
            if r.get('unique') is not None:
                kw['unique_indices'] = bool(r['unique'])
            return indices.IndexOperator(idx, in_structure=S, **kw)
        if k == 'pack':
            return linear.PackOperator(jnp.asarray(np.asarray(r['mask'], dtype=bool)), S)
        if k == 'move':
            src, dst = r['src'], r['dst']
            src = tuple(src) if isinstance(src, list) else src
            dst = tuple(dst) if isinstance(dst, list) else dst
            if r.get('as_list'):
                src = list(src) if isinstance(src, tuple) else src
                dst = list(dst) if isinstance(dst, tuple) else dst
            return axes.MoveAxisOperator(src, dst, in_structure=S)
        if k == 'ravel':
            if r.get('defaults'):
                return axes.RavelOperator(in_structure=S)
            return axes.RavelOperator(r['first'], r['last'], in_structure=S)
        if k == 'reshape':
            return axes.ReshapeOperator(tuple(r['shape_arg']) if 'shape_arg' in r else tuple(r['shape']), in_structure=S)
        if k == 'toeplitz':
            from furax.operators.toeplitz import SymmetricBandToeplitzOperator

            kw = {}
            if r.get('method') is not None:
                kw['method'] = r['method']
            if r.get('fft_size') is not None:
                kw['fft_size'] = int(r['fft_size'])
            return SymmetricBandToeplitzOperator(jarr(r['band'], r.get('vdtype', 'float32')), S, **kw)
        if k == 'hwp':
            from furax.operators.hwp import HWPOperator

            return HWPOperator(S)
        if k == 'rot':
            from furax.operators.qu_rotations import QURotationOperator

            return QURotationOperator(jarr(r['angles'], r.get('vdtype', 'float32')), S)
        if k == 'pol':
            from furax.operators.polarizers import LinearPolarizerOperator

            return LinearPolarizerOperator(S)
        if k == 'toast':
            return build_toast(r)
        if k == 'compose':
            ops = [self.build(o) for o in r['ops']]
            if r.get('via', 'list') == 'list':
                return core.CompositionOperator(ops)
            return _fold(r['tree'], ops, lambda a, b: a @ b)
        if k == 'add':
            ops = [self.build(o) for o in r['ops']]
            if r.get('via', 'list') == 'list':
                return core.AdditionOperator(ops)
            return _fold(r['tree'], ops, lambda a, b: a + b)
        if k == 'sub':
            a, b = [self.build(o) for o in r['ops']]
            return a - b
        if k == 'scale':
            op = self.build(r['op'])
            v = scalar_value(r['value'], r.get('ty', 'py_float'))
            if r['form'] == 'k*A':
                return v * op
            if r['form'] == 'A*k':
                return op * v
            return op / v
        if k == 'neg':
            return -self.build(r['op'])
        if k == 'pos':
            return +self.build(r['op'])
        if k == 'T':
            return self.build(r['op']).T
        if k == 'TG':
            return core.TransposeOperator(self.build(r['op']))
        if k == 'I':
            op = self.build(r['op'])
            with quiet_config():
                return op.I
        if k == 'reduced':
            return self.build(r['op']).reduce()
        if k == 'block':
            cls = {'row': blocks.BlockRowOperator, 'col': blocks.BlockColumnOperator,
                   'diag': blocks.BlockDiagonalOperator}[r['kind']]
            return cls(self._container(r['blocks']))
        raise ValueError(k)

    def _container(self, c):
        if _is_op(c):
            return self.build(c)
        t = c['c']
        if t == 'tuple':
            return tuple(self._container(it) for it in c['items'])
        if t == 'list':
            return [self._container(it) for it in c['items']]
        if t == 'dict':
            return {k: self._container(it) for k, it in c['items']}
        raise ValueError(t)


def _fold(tree, ops, f):
    if isinstance(tree, int):
        return ops[tree]
    a, b = tree
    return f(_fold(a, ops, f), _fold(b, ops, f))


def build_toast(r):
    import scipy.sparse as sp

    from furax.toast.obs_matrix import ToastObservationMatrixOperator

    M = np.asarray(r['matrix'], dtype=np.dtype(r['in']['dtype']))
    csr = sp.csr_matrix(M)
    here = os.path.dirname(os.path.dirname(os.path.abspath(__file__)))
    d = os.path.join(here, '.work', f'toast_{os.getpid()}')
    os.makedirs(d, exist_ok=True)
    path = os.path.join(d, 'm.npz')
    np.savez(path, format='csr', data=csr.data, indices=csr.indices, indptr=csr.indptr,
             shape=np.asarray(csr.shape))
    try:
        return ToastObservationMatrixOperator(path)
    finally:
        try:
            os.remove(path)
            os.rmdir(d)
        except OSError:
            pass


def build_case(case):
    return Builder().build_case(case)


# =============================================================================================
# executing furax operators on numpy inputs


def apply_flat(op, in_S, flat):
    """op(x) for the flat numpy vector x over in_S -> (flat float64 result, raw result pytree)."""
    x = St.value_from_flat(in_S, flat)
    y = op.mv(x)
    return St.flat_of_value(y), y


def dense_by_basis(op, in_S, out_size=None):
    """Dense matrix of a furax operator by eager application to every basis vector."""
    n = St.size(in_S)
    cols = []
    for j in range(n):
        e = np.zeros(n)
        e[j] = 1.0
        cols.append(apply_flat(op, in_S, e)[0])
    if not cols:
        return np.zeros((out_size or 0, 0))
    return np.stack(cols, axis=1)


def probes(n: int, rng_ints, max_basis: int = 16):
    """Probe vectors for an n-dimensional input space.

    rng_ints: list of ints supplied by the generator (so that everything stays inside Hypothesis).
    All basis vectors when n <= max_basis; otherwise 6 basis vectors and 6 integer vectors chosen
    from rng_ints.
    """
    out = []
    if n <= max_basis:
        for j in range(n):
            e = np.zeros(n)
            e[j] = 1.0
            out.append(e)
        if n and rng_ints:
            out.append(np.array([((rng_ints[(3 * i) % len(rng_ints)] + i) % 7) - 3 for i in range(n)], dtype=float))
        return out
    L = max(1, len(rng_ints))
    for t in range(6):
        e = np.zeros(n)
        e[(rng_ints[t % L] + 7 * t) % n] = 1.0
        out.append(e)
    for t in range(6):
        out.append(np.array([((rng_ints[(i + t) % L] * (t + 1) + i) % 7) - 3 for i in range(n)], dtype=float))
    return out


def tolerance(den: Den, absx: np.ndarray, eps: float, c_extra: float = 0.0) -> np.ndarray:
    """Forward error bound |impl - ref| <= c * eps * (A |x|) + tiny, per output element."""
    scale = den.A @ absx
    c = 8.0 * den.nf + c_extra
    if 'p32' in den.flags:
        eps = max(eps, float(np.finfo(np.float32).eps))
    if 'trig' in den.flags:
        c += 32.0
    if 'fft' in den.flags:
        c += 8.0 * 12
    tol = c * eps * scale + 1e-30
    if 'cg' in den.flags:
        tol = tol + (2e-3 if eps > 1e-10 else 2e-5) * (scale + np.max(scale, initial=0.0))
    return tol
