"""Worker process: runs one shard of one check in one 64-bit mode.

usage: python -m vlib.worker <prop> <mode:x32|x64> <shard> <nshards> <seed> <tier> <out.json>
                             [--replay FILE] [--examples N] [--budget SECONDS]

The parent (vlib.runner) never imports JAX; the worker sets the JAX environment *before* importing
anything, imports the check module ``vlib.checks.<prop>`` and executes, in this order,
  1. the committed replay recipes of the property (regression tier),
  2. the deterministic / exhaustive sweep of the property, if it has one (sharded),
  3. the Hypothesis search, in batches with derived seeds.
Every executed case goes through ``run_case`` which classifies the outcome:
  ok / skip / violation (bucketed by key) / harness error.
"""

from __future__ import annotations

import importlib
import json
import os
import sys
import time
import traceback

HERE = os.path.dirname(os.path.dirname(os.path.abspath(__file__)))
REPO_SRC = os.environ.get('VERIF_REPO_SRC', '/repo/src')


def _setup_env(mode: str) -> None:
    os.environ['JAX_ENABLE_X64'] = '1' if mode == 'x64' else '0'
    os.environ.setdefault('JAX_PLATFORMS', 'cpu')
    os.environ.setdefault('OMP_NUM_THREADS', '1')
    os.environ.setdefault('OPENBLAS_NUM_THREADS', '1')
    os.environ.setdefault('MKL_NUM_THREADS', '1')
    os.environ.setdefault(
        'XLA_FLAGS',
        '--xla_cpu_multi_thread_eigen=false intra_op_parallelism_threads=1',
    )
    os.environ.setdefault('FURAX_VERIF', '1')
    # always import furax from the current working tree of /repo
    if REPO_SRC not in sys.path:
        sys.path.insert(0, REPO_SRC)
    if HERE not in sys.path:
        sys.path.insert(0, HERE)
    deps = os.path.join(HERE, '.deps')
    if os.path.isdir(deps) and deps not in sys.path:
        sys.path.append(deps)


class Stats:
    def __init__(self) -> None:
        self.evaluations = 0
        self.skipped = 0
        self.nontrivial: set[str] = set()
        self.distinct: set[str] = set()
        self.classes: dict[str, int] = {}
        self.samples: list = []
        self.failures: list = []
        self.excluded_keys: set[str] = set()
        self.excluded = 0
        self.deferred = 0
        self.errors: list = []
        self.hyp_invalid = 0
        self.replays_run = 0
        self.sweep_cases = 0
        self.sweep_exhaustive = False
        self.stopped_early = False
        self.extra: dict = {}

    def to_json(self) -> dict:
        return {
            'evaluations': self.evaluations,
            'skipped': self.skipped,
            'nontrivial': sorted(self.nontrivial),
            'distinct': len(self.distinct),
            'classes': self.classes,
            'samples': self.samples,
            'failures': self.failures,
            'excluded': self.excluded,
            'deferred': self.deferred,
            'errors': self.errors,
            'hyp_invalid': self.hyp_invalid,
            'replays_run': self.replays_run,
            'sweep_cases': self.sweep_cases,
            'sweep_exhaustive': self.sweep_exhaustive,
            'stopped_early': self.stopped_early,
            'extra': self.extra,
        }


class Ctx:
    def __init__(self, prop, mode, shard, nshards, seed, tier):
        self.prop, self.mode, self.shard, self.nshards = prop, mode, shard, nshards
        self.seed, self.tier = seed, tier
        self.stats = Stats()
        self.t0 = time.time()


def _is_furax_crash(tb) -> str | None:
    """Innermost furax frame of a traceback, if any ('file:function')."""
    found = None
    for fs in traceback.extract_tb(tb):
        fn = fs.filename.replace('\\', '/')
        if '/furax/' in fn and '/verif/' not in fn and 'site-packages' not in fn:
            found = f'{fn.split("/furax/")[-1]}:{fs.name}'
    return found


def run_case(mod, ctx: Ctx, recipe, source: str = 'gen'):
    """Execute one case. Returns None, or a Violation instance."""
    from vlib.common import Skip, Violation, rhash

    st = ctx.stats
    st.evaluations += 1
    try:
        events = mod.check(recipe, ctx.mode)
    except Violation as v:
        return v
    except Skip:
        st.skipped += 1
        return None
    except Exception as e:  # noqa: BLE001
        where = _is_furax_crash(e.__traceback__)
        if where is not None:
            return Violation(
                f'crash:{type(e).__name__}:{where}',
                f'unexpected {type(e).__name__} from furax code: {str(e)[:300]}',
            )
        if len(st.errors) < 5:
            st.errors.append(
                {'recipe': recipe, 'traceback': traceback.format_exc()[-3000:], 'source': source}
            )
        else:
            st.errors[-1]['more'] = st.errors[-1].get('more', 0) + 1
        return None
    h = rhash(recipe)
    st.distinct.add(h)
    events = events or {}
    for c in events.get('classes', ()):
        st.classes[c] = st.classes.get(c, 0) + 1
    if events.get('nontrivial'):
        if h not in st.nontrivial and len(st.samples) < 3 and ctx.shard == 0:
            st.samples.append({'mode': ctx.mode, 'recipe': recipe, 'classes': events.get('classes', [])})
        st.nontrivial.add(h)
    return None


def record_failure(ctx: Ctx, v, recipe, source, replay_file=None):
    from vlib.common import canon

    ctx.stats.failures.append(
        {
            'key': v.key,
            'detail': v.detail,
            'recipe': json.loads(canon(recipe)),
            'mode': ctx.mode,
            'source': source,
            'replay_file': replay_file,
        }
    )
    ctx.stats.excluded_keys.add(v.key)


def run_replays(mod, ctx: Ctx) -> None:
    import glob

    for f in sorted(glob.glob(os.path.join(HERE, 'replays', f'{ctx.prop}_*.json'))):
        with open(f) as fh:
            rep = json.load(fh)
        if rep.get('mode', 'any') not in ('any', ctx.mode):
            continue
        if ctx.shard != 0:
            continue
        ctx.stats.replays_run += 1
        v = run_case(mod, ctx, rep['recipe'], source='replay')
        if v is not None:
            record_failure(ctx, v, rep['recipe'], 'replay', replay_file=f)


def run_sweep(mod, ctx: Ctx) -> None:
    if not hasattr(mod, 'sweep'):
        return
    gen = mod.sweep(ctx.tier, ctx.mode, ctx.shard, ctx.nshards)
    if gen is None:
        return
    exhaustive = True
    for recipe in gen:
        if isinstance(recipe, dict) and recipe.get('__sweep_meta__'):
            exhaustive = bool(recipe.get('exhaustive', True))
            ctx.stats.extra.update(recipe.get('extra', {}))
            continue
        ctx.stats.sweep_cases += 1
        v = run_case(mod, ctx, recipe, source='sweep')
        if v is not None:
            if v.key in ctx.stats.excluded_keys:
                ctx.stats.excluded += 1
            elif len(ctx.stats.failures) < 5:
                record_failure(ctx, v, recipe, 'sweep')
    ctx.stats.sweep_exhaustive = exhaustive and ctx.stats.sweep_cases > 0


def run_hypothesis(mod, ctx: Ctx, n_total: int, budget_s: float, batch: int = 0) -> None:
    import hypothesis
    from hypothesis import HealthCheck, Phase, given, settings
    from hypothesis.internal.conjecture import engine as _engine

    from vlib.common import Violation, canon, derive_seed

    try:
        _engine.MAX_SHRINKING_SECONDS = 45 if ctx.tier == 'quick' else 180
    except Exception:  # noqa: BLE001
        pass

    strat = mod.strategy(ctx.tier, ctx.mode)
    st = ctx.stats
    if batch <= 0:
        batch = max(20, min(250, n_total // 4 or 1))
    done = 0
    ibatch = 0
    min_cases = max(1, n_total // 10)
    while done < n_total and len(st.failures) < 5:
        if time.time() - ctx.t0 > budget_s and done >= min_cases:
            st.stopped_early = True
            break
        n = min(batch, n_total - done)
        state = {'target': None, 'last': None, 'best': None, 'v': None}
        s = derive_seed(ctx.seed, ctx.prop, ctx.mode, ctx.shard, ibatch)

        @hypothesis.seed(s)
        @settings(
            max_examples=n,
            database=None,
            deadline=None,
            derandomize=False,
            suppress_health_check=list(HealthCheck),
            phases=[Phase.generate, Phase.shrink],
            report_multiple_bugs=False,
            print_blob=False,
        )
        @given(strat)
        def t(recipe):
            v = run_case(mod, ctx, recipe)
            if v is None:
                return
            if v.key in st.excluded_keys:
                st.excluded += 1
                return
            if state['target'] is None:
                state['target'] = v.key
            if v.key != state['target']:
                st.deferred += 1
                return
            state['last'] = recipe
            state['v'] = v
            if state['best'] is None or len(canon(recipe)) < len(canon(state['best'][0])):
                state['best'] = (recipe, v)
            raise v

        try:
            t()
        except Violation:
            pass
        except BaseException as e:  # noqa: BLE001
            if isinstance(e, KeyboardInterrupt):
                raise
            # hypothesis' own errors (Flaky, Unsatisfiable, ...). Keep what we recorded.
            if state['target'] is None and len(st.errors) < 5:
                st.errors.append({'recipe': None, 'traceback': traceback.format_exc()[-3000:],
                                  'source': 'hypothesis'})
        if state['target'] is not None:
            recipe, v = state['last'], state['v']
            if state['best'] is not None and len(canon(state['best'][0])) < len(canon(recipe)):
                recipe, v = state['best']
            record_failure(ctx, v, recipe, 'hypothesis')
        done += n
        ibatch += 1


def main(argv: list[str]) -> int:
    prop, mode, shard, nshards, seed, tier, out = argv[:7]
    shard, nshards, seed = int(shard), int(nshards), int(seed)
    rest = argv[7:]
    replay = None
    examples = None
    budget = 1e9
    i = 0
    while i < len(rest):
        if rest[i] == '--replay':
            replay = rest[i + 1]
            i += 2
        elif rest[i] == '--examples':
            examples = int(rest[i + 1])
            i += 2
        elif rest[i] == '--budget':
            budget = float(rest[i + 1])
            i += 2
        else:
            raise SystemExit(f'unknown argument {rest[i]}')
    _setup_env(mode)
    ctx = Ctx(prop, mode, shard, nshards, seed, tier)
    result: dict = {'ok': False}
    try:
        mod = importlib.import_module(f'vlib.checks.{prop.lower()}')
        if replay is not None:
            with open(replay) as fh:
                rep = json.load(fh)
            v = run_case(mod, ctx, rep['recipe'], source='replay')
            if v is not None:
                record_failure(ctx, v, rep['recipe'], 'replay', replay_file=replay)
        elif hasattr(mod, 'custom_run'):
            run_replays(mod, ctx)
            mod.custom_run(ctx, examples, budget)
        else:
            run_replays(mod, ctx)
            run_sweep(mod, ctx)
            if examples is None:
                examples = mod.EXAMPLES[tier]
            if examples > 0:
                run_hypothesis(mod, ctx, examples, budget, getattr(mod, 'BATCH', 0))
        result = ctx.stats.to_json()
        result['ok'] = True
        result['rule'] = getattr(mod, 'RULE', '')
        result['assumptions'] = getattr(mod, 'ASSUMPTIONS', [])
    except BaseException:  # noqa: BLE001
        result = ctx.stats.to_json()
        result['ok'] = False
        result['fatal'] = traceback.format_exc()[-4000:]
    result['wall_s'] = time.time() - ctx.t0
    result['mode'] = mode
    result['shard'] = shard
    tmp = out + '.tmp'
    with open(tmp, 'w') as fh:
        json.dump(result, fh, default=str)
    os.replace(tmp, out)
    return 0


if __name__ == '__main__':
    sys.exit(main(sys.argv[1:]))
