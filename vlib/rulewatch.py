"""Harness-side observation of furax' reduction rules (no change to /repo).

Wraps the *instances* registered in BINARY_RULE_REGISTRY and the two n-ary rule classes so that a
check can see which rules fired during a reduce() call and bound the number of rule calls
(termination is judged by a call counter, never by wall-clock time).
"""

from __future__ import annotations

from collections import Counter


class NonTermination(Exception):
    pass


class RuleWatch:
    _installed = None

    def __init__(self):
        self.fired: Counter = Counter()
        self.log: list = []
        self.calls = 0
        self.limit = 50_000

    @classmethod
    def get(cls) -> 'RuleWatch':
        if cls._installed is None:
            w = cls()
            w._install()
            cls._installed = w
        return cls._installed

    def reset(self, limit=50_000):
        self.fired = Counter()
        self.log = []
        self.calls = 0
        self.limit = limit

    def _install(self):
        # make sure every module defining rules is imported, so that the registry is complete
        import furax._base.axes  # noqa: F401
        import furax._base.blocks  # noqa: F401
        import furax._base.indices  # noqa: F401
        import furax._base.linear  # noqa: F401
        import furax.operators.hwp  # noqa: F401
        import furax.operators.polarizers  # noqa: F401
        import furax.operators.qu_rotations  # noqa: F401
        from furax._base import rules

        watch = self
        self.rule_names = []
        for rule in rules.BINARY_RULE_REGISTRY:
            name = type(rule).__name__
            self.rule_names.append(name)
            orig_check, orig_apply = rule.check, rule.apply

            def check(left, right, _oc=orig_check):
                watch.calls += 1
                if watch.calls > watch.limit:
                    raise NonTermination(f'more than {watch.limit} rule calls in one reduce()')
                return _oc(left, right)

            def apply(left, right, _oa=orig_apply, _name=name):
                out = _oa(left, right)
                watch.fired[_name] += 1
                watch.log.append((_name, type(left).__name__, type(right).__name__, len(out)))
                return out

            try:
                object.__setattr__(rule, 'check', check)
                object.__setattr__(rule, 'apply', apply)
            except Exception:  # noqa: BLE001
                rule.check = check
                rule.apply = apply

        for cls_ in (rules.IdentityRule, rules.HomothetyRule):
            orig = cls_.apply

            def napply(self_, operands, _orig=orig, _name=cls_.__name__):
                before = list(operands)
                out = _orig(self_, operands)
                watch.calls += 1
                if watch.calls > watch.limit:
                    raise NonTermination(f'more than {watch.limit} rule calls in one reduce()')
                if len(out) != len(before) or any(a is not b for a, b in zip(out, before)):
                    watch.fired[_name] += 1
                    watch.log.append((_name, len(before), len(out)))
                return out

            cls_.apply = napply
