"""C08 - algebraic tags are truthful."""

from __future__ import annotations

import math

import numpy as np
from hypothesis import strategies as st

from .. import exprcheck as X
from .. import gen, ops
from .. import structs as St
from ..common import Violation, must_not_raise

PROP = 'C08'
EXAMPLES = {'quick': 110, 'thorough': 2500}
RULE = (
    'Hypothesis draws an instance of every operator kind of the library with its full parameter space (60% of the '
    'cases: a single operator, its transpose or its inverse on top; 40%: composites from the expression generator). '
    'For every lineax tag query that answers True on the instance (symmetric, diagonal, lower/upper triangular, '
    'tridiagonal, positive/negative semidefinite) the numpy denotation must have the property (zero pattern exactly; '
    'symmetry and definiteness within the forward error scale) and symmetric implies op.T is op; for the class-level '
    'decorators: square (cls.out_structure is cls.in_structure) implies that the value returned by mv has the input '
    'structure and the matrix is square; orthogonal (cls.inverse is cls.transpose) implies M^T M = I and op.I '
    'denotes M^T. One direction only (a missing tag is not a violation). Every concrete operator class found by '
    'walking AbstractLinearOperator.__subclasses__() must be instantiated at least once (thorough). '
    'non-trivial = the matrix is not a multiple of the identity and >= 1 tag or decorator is set.'
    ' Also: every tag is judged on the matrix of basis applications of the operator as well (n <= 16); overlap-save Toeplitz operators with several FFT blocks; a one-element array with axes as the factor of k*A, A*k, A/k (if accepted, the scalar operator\'s claims are judged).'
)
ASSUMPTIONS = [
    'lx.TaggedLinearOperator and other lineax classes are not furax operators and are excluded',
]

TAGS = ['is_symmetric', 'is_diagonal', 'is_lower_triangular', 'is_upper_triangular', 'is_tridiagonal',
        'is_positive_semidefinite', 'is_negative_semidefinite']


@st.composite
def single_case(draw, mode):
    G = gen.GenCtx(mode, cap=16)
    S = draw(gen.structure(mode, cap=14))
    kinds = gen.applicable_kinds(G, S, False)
    tagged = [k for k in kinds if k in ('id', 'hom', 'diag', 'hwp', 'rot', 'toeplitz', 'toast')]
    kind = draw(st.sampled_from(tagged if tagged and draw(st.booleans()) else kinds))
    r = gen.leaf_operand(draw, G, S, kind=kind)
    wrap = draw(st.sampled_from(['none', 'none', 'none', 'T', 'I', 'TT', 'reduced']))
    if wrap == 'T':
        r = {'k': 'T', 'op': r}
    elif wrap == 'TT':
        r = {'k': 'T', 'op': {'k': 'T', 'op': r}}
    elif wrap == 'reduced':
        r = {'k': 'reduced', 'op': r}
    elif wrap == 'I' and St.equal(G.out_of(r), S) and kind in ('id', 'hom', 'diag', 'rot'):
        if kind == 'diag':
            r['vals'] = np.where(np.asarray(r['vals'], dtype=float) == 0, 2.0, np.asarray(r['vals'], dtype=float)).tolist()
        if kind == 'hom' and float(r['value']) == 0:
            r['value'] = 2
        r = {'k': 'I', 'op': r}
    return {'defs': G.defs, 'expr': r, 'probe': draw(st.lists(st.integers(0, 1000), min_size=8, max_size=8))}


@st.composite
def borderline_case(draw, mode):
    """Constructions the library normally refuses (shape-changing strict diagonal, non-square observation matrix).
    If a (modified) library accepts them, the resulting instance must still not carry a false tag."""
    what = draw(st.sampled_from(['diag_unit_axis', 'diag_unit_axis', 'toast_nonsquare', 'diag_trailing_unit', 'scalar_with_axes']))
    if what == 'scalar_with_axes':
        # a one-element array WITH axes as the factor of k * A, A * k, A / k (a keepdims=True normalisation): normally
        # refused; if accepted, the resulting scalar operator carries the diagonal/symmetric/square claims
        return {'special': what, 'S': St.leaf([draw(st.integers(1, 3))] if draw(st.booleans()) else [], 'float32'),
                'kshape': draw(st.sampled_from([[1], [1, 1], [1, 1, 1]])), 'form': draw(st.sampled_from(['k*A', 'A*k', 'A/k'])),
                'probe': [1] * 8}
    if what == 'diag_trailing_unit':
        k = draw(st.integers(2, 4))
        form = draw(st.sampled_from(['k1_axis0', '1_axis1']))
        S = St.leaf([k], 'float32')
        if draw(st.booleans()):
            S = {'t': 'tuple', 'items': [S, St.leaf([k, draw(st.integers(1, 2))], 'float32')]}
        vals = [[draw(st.sampled_from([2.0, -1.0, 3.0]))] for _ in range(k)] if form == 'k1_axis0' else [draw(st.sampled_from([2.0, 3.0]))]
        return {'special': 'diag_unit_axis', 'S': S, 'vals': vals, 'axis': 0 if form == 'k1_axis0' else 1, 'probe': [1] * 8}
    if what == 'diag_unit_axis':
        k = draw(st.integers(2, 3))
        other = [draw(st.integers(1, 3)) for _ in range(draw(st.integers(0, 1)))]
        leaves = [St.leaf([1] + other, 'float32'), St.leaf([k] + [draw(st.integers(1, 2))], 'float32')]
        if draw(st.booleans()):
            leaves.reverse()
        S = {'t': draw(st.sampled_from(['tuple', 'list'])), 'items': leaves}
        vals = [draw(st.sampled_from([2.0, -1.0, 3.0, 0.5])) for _ in range(k)]
        return {'special': what, 'S': S, 'vals': vals, 'axis': 0, 'probe': [1] * 8}
    r, c = draw(st.sampled_from([(4, 3), (3, 4), (2, 5), (5, 2)]))
    vals = draw(st.lists(st.sampled_from([0, 0, 1, -1, 2]), min_size=r * c, max_size=r * c))
    return {'special': what, 'matrix': np.asarray(vals, dtype=float).reshape(r, c).tolist(), 'probe': [1] * 8}


@st.composite
def toeplitz_blocks_case(draw, mode):
    """Symmetric band Toeplitz operators evaluated block by block (overlap-save with several FFT blocks, lengths that are
    exact multiples of the block step or leave an almost full last block): the symmetric claim is about what is applied."""
    K = draw(st.integers(2, 3))
    fft = draw(st.sampled_from([None, 2 * K - 1, 2 * K, 2 * K + 1, 2 * K + 2]))
    step = (fft or int(2 ** (1 + math.ceil(math.log2(K))))) - 2 * (K - 1)
    n = min(16, step * draw(st.integers(2, 8)) + draw(st.sampled_from([0, 0, 0, step - 1, 1])))
    S = St.leaf([n], draw(st.sampled_from(gen.dtypes(mode))))
    band = [draw(st.sampled_from([2.0, 1.0, -1.0, 0.5, 3.0])) for _ in range(K)]
    return {'defs': [], 'expr': {'k': 'toeplitz', 'in': S, 'band': band, 'method': draw(st.sampled_from([None, 'overlap_save'])),
                                 'fft_size': fft, 'vdtype': S['dtype']}, 'probe': draw(st.lists(st.integers(0, 1000), min_size=8, max_size=8))}


def strategy(tier, mode):
    return st.one_of(borderline_case(mode), single_case(mode), single_case(mode), single_case(mode), toeplitz_blocks_case(mode),
                     gen.expression_case(mode, cap=16, max_len=3, depth=2),
                     gen.expression_case(mode, cap=16, max_len=3, depth=2, allow_cg=True))


def concrete_classes():
    from furax._base.core import AbstractLinearOperator
    import furax._base.axes, furax._base.blocks, furax._base.dense, furax._base.diagonal  # noqa: F401,E401
    import furax._base.indices, furax._base.linear, furax.operators.hwp, furax.operators.polarizers  # noqa: F401,E401
    import furax.operators.qu_rotations, furax.operators.toeplitz, furax.toast.obs_matrix  # noqa: F401,E401

    out = set()

    def walk(c):
        for s in c.__subclasses__():
            if s.__module__.startswith('furax') and not getattr(s, '__abstractmethods__', None) and not s.__name__.startswith(('Abstract', '_Abstract')):
                out.add(s.__name__)
            walk(s)

    walk(AbstractLinearOperator)
    return sorted(out)


def _classes_in(op, acc):
    from furax._base.core import AbstractLinearOperator
    import jax

    acc.add(type(op).__name__)
    for name in ('operands', 'blocks', 'operator'):
        sub = getattr(op, name, None)
        if sub is None:
            continue
        for o in jax.tree.leaves(sub, is_leaf=lambda z: isinstance(z, AbstractLinearOperator)):
            if isinstance(o, AbstractLinearOperator):
                _classes_in(o, acc)


def _check_borderline(case):
    import jax
    import jax.numpy as jnp
    import lineax as lx

    what = case['special']
    try:
        if what == 'diag_unit_axis':
            from furax._base.diagonal import DiagonalOperator

            op = DiagonalOperator(jnp.asarray(case['vals'], jnp.float32), axis_destination=case['axis'],
                                  in_structure=St.to_jax(case['S']))
        elif what == 'scalar_with_axes':
            from furax._base.core import CompositionOperator, HomothetyOperator, IdentityOperator

            base = IdentityOperator(St.to_jax(case['S']))
            k = jnp.full(tuple(case['kshape']), 2.0, jnp.float32)
            op = k * base if case['form'] == 'k*A' else (base * k if case['form'] == 'A*k' else base / k)
            if isinstance(op, CompositionOperator):
                homs = [o for o in op.operands if isinstance(o, HomothetyOperator)]
                op = homs[0] if homs else op
        else:
            op = ops.build_toast({'in': {'dtype': 'float32'}, 'matrix': case['matrix']})
    except Exception as e:  # noqa: BLE001  (refusing such a construction is the normal behaviour)
        return {'nontrivial': False, 'classes': ['borderline:' + what, 'refused:' + type(e).__name__]}
    name = type(op).__name__
    ins = op.in_structure()
    leaves, treedef = jax.tree.flatten(ins)
    n = sum(int(np.prod(l.shape)) for l in leaves)
    cols = []
    for j in range(n):
        e = np.zeros(n)
        e[j] = 1.0
        parts, pos = [], 0
        for l in leaves:
            sz = int(np.prod(l.shape))
            parts.append(jnp.asarray(e[pos:pos + sz].reshape(l.shape), dtype=l.dtype))
            pos += sz
        y = must_not_raise('borderline-mv', op.mv, jax.tree.unflatten(treedef, parts))
        cols.append(St.flat_of_value(y))
        if j == 0:
            yl, ytd = jax.tree.flatten(y)
            same = ytd == treedef and all(tuple(a.shape) == tuple(b.shape) for a, b in zip(yl, leaves))
    M = np.stack(cols, axis=1)
    if type(op).out_structure is type(op).in_structure and not same:
        raise Violation(f'square:{name}', f'{name} is declared square but mv changes the structure ({what})')
    for t in TAGS:
        if getattr(lx, t)(op):
            if M.shape[0] != M.shape[1]:
                raise Violation(f'{t}:{name}', f'{name} answers {t} but its matrix is {M.shape} ({what})')
            if t == 'is_symmetric' and not np.array_equal(M, M.T):
                raise Violation(f'{t}:{name}', f'{name} is tagged symmetric but M != M^T ({what})')
            if t == 'is_diagonal' and np.abs(M - np.diag(np.diag(M))).max(initial=0.0) > 0:
                raise Violation(f'{t}:{name}', f'{name} is tagged diagonal but has off-diagonal entries ({what})')
    return {'nontrivial': True, 'classes': ['borderline:' + what, 'accepted']}


def check(case, mode):
    import lineax as lx

    if case.get('special'):
        return _check_borderline(case)
    defs = case.get('defs', [])
    den = ops.denote_case(case)
    op = must_not_raise('build', ops.build_case, case)
    M, A = den.M, den.A
    eps = X.eps_of(den)
    c = 8.0 * den.nf + (32 if 'trig' in den.flags else 0) + (96 if 'fft' in den.flags else 0)
    cg = (2e-3 if eps > 1e-10 else 2e-5) if 'cg' in den.flags else 0.0
    E = c * eps * A + cg * (A + A.max(initial=0.0)) + 1e-30  # entrywise error scale of the dense form
    square_m = M.shape[0] == M.shape[1]
    cls = type(op)
    name = cls.__name__
    true_tags = []
    for t in TAGS:
        if must_not_raise('tag:' + t, getattr(lx, t), op):
            true_tags.append(t)
    for t in true_tags:
        if not square_m:
            raise Violation(f'{t}:{name}', f'{name} answers {t} but its matrix is {M.shape}')
        off = M - np.diag(np.diag(M))
        Eoff = E + E.T
        if t == 'is_symmetric':
            if (np.abs(M - M.T) > Eoff).any():
                raise Violation(f'{t}:{name}', f'{name} is tagged symmetric but M != M^T (max diff {np.abs(M - M.T).max():.3g})')
            if op.T is not op:
                raise Violation(f'symmetric-T-not-self:{name}', f'{name} is tagged symmetric but op.T is not op')
        elif t == 'is_diagonal' and (np.abs(off) > E).any():
            raise Violation(f'{t}:{name}', f'{name} is tagged diagonal but has off-diagonal entries')
        elif t == 'is_lower_triangular' and (np.abs(np.triu(M, 1)) > E).any():
            raise Violation(f'{t}:{name}', f'{name} is tagged lower triangular but has entries above the diagonal')
        elif t == 'is_upper_triangular' and (np.abs(np.tril(M, -1)) > E).any():
            raise Violation(f'{t}:{name}', f'{name} is tagged upper triangular but has entries below the diagonal')
        elif t == 'is_tridiagonal' and (np.abs(np.triu(M, 2)) + np.abs(np.tril(M, -2)) > E).any():
            raise Violation(f'{t}:{name}', f'{name} is tagged tridiagonal but has entries outside the three diagonals')
        elif t in ('is_positive_semidefinite', 'is_negative_semidefinite'):
            w = np.linalg.eigvalsh((M + M.T) / 2)
            slack = float(np.abs(E).sum()) + 1e-12
            if t == 'is_positive_semidefinite' and w.min(initial=0.0) < -slack:
                raise Violation(f'{t}:{name}', f'{name} is tagged PSD but has eigenvalue {w.min():.3g}')
            if t == 'is_negative_semidefinite' and w.max(initial=0.0) > slack:
                raise Violation(f'{t}:{name}', f'{name} is tagged NSD but has eigenvalue {w.max():.3g}')
    # the same judgement on what the operator itself computes (basis applications), not only on the reference matrix:
    # a tag is a claim about the operator
    applied = []
    if true_tags and square_m and M.shape[1] <= 16 and 'cg' not in den.flags:
        Mop = must_not_raise('apply-basis', ops.dense_by_basis, op, den.in_S, M.shape[0])
        Eo = 2 * (E + E.T)
        if Mop.shape == M.shape:
            for t in true_tags:
                bad = (t == 'is_symmetric' and (np.abs(Mop - Mop.T) > Eo).any()) or \
                      (t == 'is_diagonal' and (np.abs(Mop - np.diag(np.diag(Mop))) > Eo).any()) or \
                      (t == 'is_lower_triangular' and (np.abs(np.triu(Mop, 1)) > Eo).any()) or \
                      (t == 'is_upper_triangular' and (np.abs(np.tril(Mop, -1)) > Eo).any())
                if bad:
                    raise Violation(f'{t}:{name}:applied', f'{name} answers {t} but the matrix of its basis applications does not have that property')
            applied = ['tags_judged_on_applied_matrix']
    decorators = []
    if cls.out_structure is cls.in_structure:
        decorators.append('square')
        if not square_m:
            raise Violation(f'square:{name}', f'{name} is declared square but its matrix is {M.shape}')
        x = np.array([((case['probe'][i % 8] + i) % 5) - 2 for i in range(M.shape[1])], dtype=float)
        y = must_not_raise('mv', op.mv, St.value_from_flat(den.in_S, x))
        if not St.same_structure(den.in_S, y):
            raise Violation(f'square:{name}', f'{name} is declared square but mv returns {St.describe(y)} for input {St.describe(St.to_jax(den.in_S))}')
    if cls.inverse is cls.transpose:
        decorators.append('orthogonal')
        if not square_m:
            raise Violation(f'orthogonal:{name}', f'{name} is declared orthogonal but its matrix is {M.shape}')
        G = M.T @ M
        Eg = (np.abs(M.T) @ E + E.T @ np.abs(M)) + 1e-30
        if (np.abs(G - np.eye(M.shape[0])) > Eg + 64 * eps).any():
            raise Violation(f'orthogonal:{name}', f'{name} is declared orthogonal but M^T M != I (max diff {np.abs(G - np.eye(M.shape[0])).max():.3g})')
        inv = must_not_raise('inverse', lambda: op.I)
        denT = ops.Den(M.T.copy(), A.T.copy(), den.out_S, den.in_S, den.flags, den.nf)
        X.compare_with_den(inv, denT, case['probe'], f'orthogonal-inverse:{name}', max_basis=8)
    seen = set()
    _classes_in(op, seen)
    classes = ['class:' + n for n in seen] + ['tag:' + t for t in true_tags] + ['decorator:' + d for d in decorators]
    multiple_of_identity = square_m and np.array_equal(M, M[0, 0] * np.eye(M.shape[0])) if M.size else True
    return {'nontrivial': (not multiple_of_identity) and bool(true_tags or decorators), 'classes': classes + applied}
