"""C02 - operator arithmetic is matrix arithmetic, whatever the grouping."""

from __future__ import annotations

import numpy as np
from hypothesis import strategies as st

from .. import exprcheck as X
from .. import gen, ops
from .. import structs as St
from ..common import Violation, must_not_raise

PROP = 'C02'
EXAMPLES = {'quick': 110, 'thorough': 3000}
RULE = (
    'Three generators. (1) arithmetic trees: random binary trees (2-6 leaves) over @ + - unary +/- k* *k /k whose '
    'leaves are plain operators, ready-made compositions and sums, identities, scalar operators, closed-form and '
    'lazy inverses and block operators on a common structure, scalars of every flavour (python int/float, numpy '
    'scalars, 0-d numpy/JAX arrays); oracle = numpy arithmetic on the operand denotations. (2) typed chains/sums '
    'built with the operators (non-square operands, reflected __rmatmul__/__radd__). (3) ill-typed pairs for every '
    'ordered pair of operand kinds whose structures differ in a shape, a dtype, a container type or the Stokes kind, '
    'for @ + -, and non-scalar "scalars" for * and /: the expression must raise and not return an operator. '
    'non-trivial = ill-typed pair, or a tree with >=3 leaves having a composite operand on both sides of some node.'
    ' Also: an operator and its own lazy inverse around or beside a third operator (A @ (Y @ A.I), (A.I @ Y) @ A, ...), in both groupings.'
    ' Also (relatives): X.I @ Y and Y @ X.I for Y a different operator made of the same array objects as X (transpose, A@A.T vs A.T@A, D@A vs A@D, an equal-valued copy): the result is an IdentityOperator only if the reference matrices agree.'
)
ASSUMPTIONS = [
    'a NumPy ndarray of rank >= 1 as the left operand of * is not generated (NumPy pre-empts furax and returns an object array)',
    'any exception type counts as rejection of ill-typed operands (the type is recorded)',
    'dtype-mismatch pairs only with 64-bit mode on (float64 structures cannot be honoured otherwise)',
]

KINDS = ['plain', 'composition', 'sum', 'identity', 'scalar', 'inverse', 'block']


def operand_of_kind(draw, G, S, kind):
    if kind == 'plain':
        return gen.leaf_operand(draw, G, S, square=True)
    if kind == 'composition':
        n = draw(st.integers(2, 3))
        return {'k': 'compose', 'ops': [gen.leaf_operand(draw, G, S, square=True) for _ in range(n)],
                'via': draw(st.sampled_from(['list', 'matmul'])), 'tree': gen._ptree(draw, n)}
    if kind == 'sum':
        n = draw(st.integers(2, 3))
        return {'k': 'add', 'ops': [gen.leaf_operand(draw, G, S, square=True) for _ in range(n)],
                'via': draw(st.sampled_from(['list', 'plus'])), 'tree': gen._ptree(draw, n)}
    if kind == 'identity':
        return {'k': 'id', 'in': S}
    if kind == 'scalar':
        ty = draw(st.sampled_from(['py_float', 'py_int', 'jax_0d']))
        v = draw(st.sampled_from(gen.VALS))
        if ty == 'py_int':
            v = int(v) or 2
        return {'k': 'hom', 'in': S, 'value': v, 'ty': ty}
    if kind == 'inverse':
        r, _ = gen.invertible(draw, G, S)
        return {'k': 'I', 'op': r}
    if kind == 'block':
        if S['t'] in ('tuple', 'list', 'dict'):
            return gen.g_block_diag(draw, G, S, 1, square=True)
        return gen.leaf_operand(draw, G, S, square=True)
    raise ValueError(kind)


def arith_tree(draw, G, S, n):
    """Random arithmetic expression over n square leaves on S."""
    if n == 1:
        shared = getattr(G, 'shared_composites', [])
        if shared and draw(st.integers(0, 2)) == 0:
            # the SAME composite object used again (operand reuse): building one expression must not modify it
            return draw(st.sampled_from(shared))
        kind = draw(st.sampled_from(KINDS + ['plain', 'shared', 'shared']))
        if kind == 'shared':
            sandwich = draw(st.booleans())
            r, closed = gen.invertible(draw, G, S)
            if sandwich and closed:
                r, closed = gen.invertible(draw, G, S)  # (a second draw: prefer an operator whose inverse stays lazy)
            A = G.define(r)
            # A.I @ A or A @ A.I built with the operator: construction-time shortcut
            pair = [{'k': 'I', 'op': A}, A]
            if draw(st.booleans()):
                pair.reverse()
            if sandwich:
                # A and its lazy inverse around (or next to) another operator Y, in both groupings: only the adjacent
                # pair may cancel, A @ (Y @ A.I) is the similarity transform A Y A^-1
                Y = operand_of_kind(draw, G, S, draw(st.sampled_from(['plain', 'plain', 'plain', 'composition'])))
                trio = draw(st.sampled_from([[pair[0], Y, pair[1]], [pair[0], Y, pair[1]], [pair[0], pair[1], Y], [Y, pair[0], pair[1]]]))

                def c2(a_, b_):
                    return {'k': 'compose', 'ops': [a_, b_], 'via': 'matmul', 'tree': [0, 1]}

                return c2(trio[0], c2(trio[1], trio[2])) if draw(st.booleans()) else c2(c2(trio[0], trio[1]), trio[2])
            return {'k': 'compose', 'ops': pair, 'via': 'matmul', 'tree': [0, 1]}
        leaf = operand_of_kind(draw, G, S, kind)
        un = draw(st.sampled_from(['none'] * 5 + ['neg', 'pos', 'scale']))
        if un == 'neg':
            return {'k': 'neg', 'op': leaf}
        if un == 'pos':
            return {'k': 'pos', 'op': leaf}
        if un == 'scale':
            v, ty = gen.scalar(draw)
            form = draw(st.sampled_from(['k*A', 'A*k', 'A/k']))
            if ty == 'np_0d' and form == 'k*A':
                form = 'A*k'
            if form == 'A/k' and ty == 'np_i32':
                ty = 'np_f32'
            return {'k': 'scale', 'op': leaf, 'value': v, 'ty': ty, 'form': form}
        return leaf
    k = draw(st.integers(1, n - 1))
    left = arith_tree(draw, G, S, k)
    right = arith_tree(draw, G, S, n - k)
    o = draw(st.sampled_from(['@', '@', '@', '+', '+', '-']))
    if o == '@':
        node = {'k': 'compose', 'ops': [left, right], 'via': 'matmul', 'tree': [0, 1]}
    elif o == '+':
        node = {'k': 'add', 'ops': [left, right], 'via': 'plus', 'tree': [0, 1]}
    else:
        node = {'k': 'sub', 'ops': [left, right]}
    un = draw(st.sampled_from(['none'] * 6 + ['neg', 'scale']))
    if un == 'neg':
        node = {'k': 'neg', 'op': node}
    elif un == 'scale':
        v, ty = gen.scalar(draw)
        form = draw(st.sampled_from(['k*A', 'A*k', 'A/k']))
        if ty == 'np_0d' and form == 'k*A':
            form = 'A*k'
        if form == 'A/k' and ty == 'np_i32':
            ty = 'np_f32'
        node = {'k': 'scale', 'op': node, 'value': v, 'ty': ty, 'form': form}
    return node


@st.composite
def tree_case(draw, mode):
    G = gen.GenCtx(mode, cap=16)
    S = draw(gen.structure(mode, cap=12))
    n = draw(st.integers(2, 6))
    G.shared_composites = []
    if draw(st.integers(0, 2)) == 0:
        for _ in range(draw(st.integers(1, 2))):
            k = draw(st.sampled_from(['composition', 'sum']))
            r = operand_of_kind(draw, G, S, k)
            r['via'] = 'matmul' if k == 'composition' else 'plus'
            G.shared_composites.append(G.define(r))
        n = max(n, 3)
    expr = arith_tree(draw, G, S, n)
    return {'mode': 'well', 'defs': G.defs, 'expr': expr, 'nleaves': n, 'shared': [r_['i'] for r_ in G.shared_composites],
            'probe': draw(st.lists(st.integers(0, 1000), min_size=8, max_size=8))}


@st.composite
def chain_case(draw, mode):
    G = gen.GenCtx(mode, cap=20)
    S = draw(gen.structure(mode, cap=16))
    n = draw(st.integers(2, 5))
    seq = []
    cur = S
    for _ in range(n):
        o = gen.operand(draw, G, cur, 1)
        seq.append(o)
        cur = G.out_of(o)
    opsl = list(reversed(seq))
    expr = {'k': 'compose', 'ops': opsl, 'via': 'matmul', 'tree': gen._ptree(draw, n)}
    return {'mode': 'well', 'defs': G.defs, 'expr': expr, 'nleaves': n,
            'probe': draw(st.lists(st.integers(0, 1000), min_size=8, max_size=8))}


def perturb(draw, S, mode):
    """A structure different from S in exactly one respect; returns (S2, what)."""
    options = ['shape']
    if mode == 'x64':
        options.append('dtype')
    if S['t'] in ('tuple', 'list'):
        options.append('container')
    if S['t'] == 'stokes':
        options.append('stokes')
    if S['t'] == 'leaf':
        options.append('wrap')
    what = draw(st.sampled_from(options))
    nl = St.nleaves(S)
    if what == 'shape':
        target = draw(st.integers(0, nl - 1)) if S['t'] != 'stokes' else 0
        cnt = [0]

        def f(sh, dt):
            i = cnt[0]
            cnt[0] += 1
            if i == target or S['t'] == 'stokes':
                if len(sh) == 0:
                    return (2,), dt
                sh = list(sh)
                sh[draw(st.integers(0, len(sh) - 1))] += 1
                return tuple(sh), dt
            return sh, dt

        return St.map_leaves(S, f), what
    if what == 'dtype':
        target = draw(st.integers(0, nl - 1)) if S['t'] != 'stokes' else 0
        cnt = [0]

        def g(sh, dt):
            i = cnt[0]
            cnt[0] += 1
            if i == target or S['t'] == 'stokes':
                return sh, ('float64' if dt == 'float32' else 'float32')
            return sh, dt

        return St.map_leaves(S, g), what
    if what == 'container':
        return {'t': 'tuple' if S['t'] == 'list' else 'list', 'items': S['items']}, what
    if what == 'stokes':
        other = draw(st.sampled_from([k for k in ['I', 'QU', 'IQU', 'IQUV'] if k != S['kind']]))
        return St.stokes(other, S['shape'], S['dtype']), what
    return {'t': 'tuple', 'items': [S]}, what


@st.composite
def ill_case(draw, mode):
    G = gen.GenCtx(mode, cap=12)
    S1 = draw(gen.structure(mode, cap=12))
    S2, what = perturb(draw, S1, mode)
    k1 = draw(st.sampled_from(KINDS))
    k2 = draw(st.sampled_from(KINDS))
    left = operand_of_kind(draw, G, S1, k1)
    right = operand_of_kind(draw, G, S2, k2)
    return {'mode': 'ill', 'defs': G.defs, 'left': left, 'right': right, 'op': draw(st.sampled_from(['@', '+', '-'])),
            'kinds': [k1, k2], 'what': what}


@st.composite
def nonscalar_case(draw, mode):
    G = gen.GenCtx(mode, cap=12)
    S = draw(gen.structure(mode, cap=12))
    operand = operand_of_kind(draw, G, S, draw(st.sampled_from(KINDS)))
    scal = draw(st.sampled_from(['list2', 'jax1', 'jax2', 'jax11', 'tuple2']))
    form = draw(st.sampled_from(['k*A', 'A*k', 'A/k']))
    return {'mode': 'nonscalar', 'defs': G.defs, 'operand': operand, 'scalar': scal, 'form': form}


@st.composite
def relatives_case(draw, mode):
    """X.I @ Y and Y @ X.I where X is NOT Y but a close relative: same class, same array objects inside, another map
    (a dense operator and its transpose, A @ A.T and A.T @ A, D @ A and A @ D, A and a re-created equal-valued A).
    The collapse-to-identity shortcut is keyed on operand identity and must not fire."""
    G = gen.GenCtx(mode, cap=16)
    S = draw(gen.structure(mode, cap=9).filter(lambda s_: bool(gen.dense_forms(s_))))
    A = G.define(gen.g_dense(draw, G, S, square=True))
    T = {'k': 'T', 'op': A}
    form = draw(st.sampled_from(['transpose', 'AAt', 'DA', 'copy', 'same']))
    if form == 'transpose':
        X, Y = T, A
    elif form == 'AAt':
        X = {'k': 'compose', 'ops': [A, T], 'via': 'matmul', 'tree': [0, 1]}
        Y = {'k': 'compose', 'ops': [T, A], 'via': 'matmul', 'tree': [0, 1]}
    elif form == 'DA':
        D = G.define(gen.g_diag(draw, G, S, zeros=False))
        X = {'k': 'compose', 'ops': [D, A], 'via': 'matmul', 'tree': [0, 1]}
        Y = {'k': 'compose', 'ops': [A, D], 'via': 'matmul', 'tree': [0, 1]}
    elif form == 'copy':
        X, Y = A, G.define(dict(G.defs[A['i']]))
    else:
        X, Y = A, A
    if draw(st.booleans()):
        X, Y = Y, X
    return {'mode': 'relatives', 'defs': G.defs, 'X': X, 'Y': Y, 'form': form, 'side': draw(st.sampled_from(['X.I@Y', 'Y@X.I']))}


def strategy(tier, mode):
    return st.one_of(tree_case(mode), tree_case(mode), tree_case(mode), chain_case(mode), ill_case(mode),
                     ill_case(mode), nonscalar_case(mode), relatives_case(mode))


def _has_composite_both_sides(r, defs):
    k = r['k']
    if k == 'ref':
        return _has_composite_both_sides(defs[r['i']], defs)
    comp = ('compose', 'add', 'sub')
    if k in comp and len(r['ops']) == 2:
        a, b = r['ops']
        if _base(a, defs)['k'] in comp and _base(b, defs)['k'] in comp:
            return True
    if k in comp:
        return any(_has_composite_both_sides(o, defs) for o in r['ops'])
    if k in ('scale', 'neg', 'pos', 'T', 'I'):
        return _has_composite_both_sides(r['op'], defs)
    return False


def _base(r, defs):
    while r['k'] in ('ref', 'neg', 'pos', 'scale'):
        r = defs[r['i']] if r['k'] == 'ref' else r['op']
    return r


def check(recipe, mode):
    import jax.numpy as jnp
    import lineax as lx

    defs = recipe.get('defs', [])
    if recipe['mode'] == 'well':
        case = {'defs': defs, 'expr': recipe['expr']}
        den = ops.denote_case(case)
        op = must_not_raise('build', ops.build_case, case)
        X.check_structures(op, den, 'structure')
        X.compare_with_den(op, den, recipe['probe'], 'value')
        kinds = X.kinds_in(recipe['expr'], defs)
        if recipe.get('shared'):
            # operands used several times still denote what they denoted when they were built
            b2 = ops.Builder(defs)
            b2.build(recipe['expr'])
            for i in recipe['shared']:
                if i in b2.built:
                    X.compare_with_den(b2.built[i], ops.denote({'k': 'ref', 'i': i}, defs, {}), recipe['probe'],
                                       'shared-operand-modified', max_basis=6)
        classes = ['node:' + k for k in kinds if k in ('compose', 'add', 'sub', 'scale', 'neg', 'pos', 'I')]
        both = _has_composite_both_sides(recipe['expr'], defs)
        if both:
            classes.append('composite_both_sides')
        if recipe['expr']['k'] == 'compose' and len(recipe['expr']['ops']) == 2 and defs:
            classes.append('shared_inverse_shortcut')
        if recipe.get('shared'):
            classes.append('reused_composite_operand')
        return {'nontrivial': recipe['nleaves'] >= 3 and both, 'classes': classes}
    b = ops.Builder(defs)
    if recipe['mode'] == 'relatives':
        from furax._base.core import IdentityOperator

        opX = must_not_raise('build-X', b.build, recipe['X'])
        opY = must_not_raise('build-Y', b.build, recipe['Y'])
        mx = ops.denote(recipe['X'], defs, {}).M
        my = ops.denote(recipe['Y'], defs, {}).M
        Xi = must_not_raise('lazy-inverse', lambda: opX.I)
        res = must_not_raise('build', (lambda: Xi @ opY) if recipe['side'] == 'X.I@Y' else (lambda: opY @ Xi))
        same_map = mx.shape == my.shape and np.allclose(mx, my, rtol=1e-6, atol=1e-9)
        if isinstance(res, IdentityOperator) and not same_map:
            raise Violation('inverse-shortcut-unsound',
                            f'{recipe["side"]} collapsed to the identity although X ({type(opX).__name__}) and Y are different '
                            f'operators denoting different maps (form {recipe["form"]}): max |X - Y| = {np.abs(mx - my).max():.3g}')
        return {'nontrivial': not same_map, 'classes': ['relatives:' + recipe['form'], 'side:' + recipe['side'],
                                                        'collapsed' if isinstance(res, IdentityOperator) else 'kept']}
    if recipe['mode'] == 'ill':
        left = must_not_raise('build-left', b.build, recipe['left'])
        right = must_not_raise('build-right', b.build, recipe['right'])
        o = recipe['op']
        try:
            if o == '@':
                res = left @ right
            elif o == '+':
                res = left + right
            else:
                res = left - right
        except Exception as e:  # noqa: BLE001  (rejection is what the property requires)
            return {'nontrivial': True,
                    'classes': [f'ill:{recipe["kinds"][0]}{o}{recipe["kinds"][1]}', 'ill-diff:' + recipe['what'],
                                'rejected-with:' + type(e).__name__]}
        raise Violation(
            f'ill-typed-accepted:{recipe["kinds"][0]}{o}{recipe["kinds"][1]}',
            f'{type(left).__name__} {o} {type(right).__name__} with structures differing in {recipe["what"]} '
            f'returned {type(res).__name__} instead of raising')
    # non-scalar "scalars"
    operand = must_not_raise('build-operand', b.build, recipe['operand'])
    s = {'list2': [1.0, 2.0], 'tuple2': (1.0, 2.0), 'jax1': jnp.ones((1,)), 'jax2': jnp.ones((2,)),
         'jax11': jnp.ones((1, 1))}[recipe['scalar']]
    try:
        if recipe['form'] == 'k*A':
            res = s * operand
        elif recipe['form'] == 'A*k':
            res = operand * s
        else:
            res = operand / s
    except Exception as e:  # noqa: BLE001
        return {'nontrivial': True, 'classes': ['nonscalar:' + recipe['scalar'] + ':' + recipe['form'],
                                                'rejected-with:' + type(e).__name__]}
    if isinstance(res, lx.AbstractLinearOperator):
        raise Violation('nonscalar-accepted', f'{recipe["form"]} with scalar {recipe["scalar"]} returned {type(res).__name__}')
    raise Violation('nonscalar-accepted', f'{recipe["form"]} with scalar {recipe["scalar"]} returned {type(res).__name__} without raising')
