"""C13 - move-axis, ravel and reshape operators are exact relabellings of array elements."""

from __future__ import annotations

import itertools
import math

import numpy as np
from hypothesis import strategies as st

from .. import gen, ops
from .. import structs as St
from ..common import Violation, must_not_raise, must_raise
from ..rulewatch import RuleWatch

PROP = 'C13'
EXAMPLES = {'quick': 150, 'thorough': 4000}
RULE = (
    'Hypothesis draws move-axis (int and tuple sources/destinations, positive / negative / mixed signs, one or several '
    'axes), ravel (every (first,last) sign combination) and reshape (every factorisation of the leaf size with at most '
    'one -1) operators over single leaves and pytrees whose leaves have different ranks / sizes, legal for every leaf '
    'by construction, plus the two illegal categories the property names (a first axis after the last one; a target '
    'shape of a different size) which must raise ValueError at construction; a sweep enumerates all legal arguments '
    'over small shapes. Oracle: numpy moveaxis / reshape per leaf (exact), declared output structure, '
    'op.T(op(x)) == x and op(op.T(y)) == y exactly, dense(op) is a permutation matrix whose transpose is dense(op.T), '
    'op.reduce() is the identity iff every leaf shape is unchanged, inverse pairs reduce to the identity by value. '
    'non-trivial = mixed-sign axes, or >= 2 leaves of different rank, or a -1 inference.'
    ' Also: the would-be inverse move-axis with rotated source/destination pairing must not be cancelled; pytrees of 8-12 leaves of one shape.'
)
ASSUMPTIONS = [
    'no zero-sized dimensions; out-of-range ravel axes and repeated move axes are not generated (furax accepts them silently; the property does not forbid it)',
]


def _shape(draw, minr, maxr, cap=36):
    r = draw(st.integers(minr, maxr))
    sh = []
    b = cap
    for _ in range(r):
        d = draw(st.integers(1, max(1, min(4, b))))
        sh.append(d)
        b = max(1, b // d)
    return sh


def _tree(draw, leaves):
    if len(leaves) == 1:
        return leaves[0]
    form = draw(st.sampled_from(['tuple', 'list', 'dict'])) if len(leaves) <= 3 else draw(st.sampled_from(['tuple', 'list']))
    if form == 'dict':
        keys = list(draw(st.permutations(['b', 'a', 'c'])))[: len(leaves)]
        return {'t': 'dict', 'items': [[k, l] for k, l in zip(keys, leaves)]}
    return {'t': form, 'items': leaves}


@st.composite
def move_case(draw, mode):
    dt = 'float32'
    nl = draw(st.sampled_from([1, 1, 2, 3]))
    base = _shape(draw, 2, 4)
    leaves = [St.leaf(base, dt)]
    for _ in range(nl - 1):
        extra = _shape(draw, 0, 2, cap=4)
        lead = draw(st.booleans())
        sh = (extra + base) if lead else (base + extra)
        if math.prod(sh) > 48:
            sh = base
        leaves.append(St.leaf(sh, draw(st.sampled_from(gen.dtypes(mode)))))
    if draw(st.integers(0, 7)) == 0:
        # many leaves of one shape and dtype (a pytree of detectors, of frequency maps): 8 to 12 of them
        small = base if math.prod(base) <= 12 else base[:2]
        if len(small) < 2:
            small = [2, 3]
        leaves = [St.leaf(small, dt) for _ in range(draw(st.integers(8, 12)))]
    shapes = [l['shape'] for l in leaves]
    minr = min(len(s) for s in shapes)
    same = len({len(s) for s in shapes}) == 1
    k = draw(st.integers(1, min(3, minr)))
    # addressing that is legal on every leaf: negative, positive (< min rank) or mixed when ranks agree
    if same:
        nd = len(shapes[0])
        pool = list(range(nd))
        src = list(draw(st.permutations(pool)))[:k]
        dst = list(draw(st.permutations(pool)))[:k]
        src = [a - nd if draw(st.booleans()) else a for a in src]
        dst = [a - nd if draw(st.booleans()) else a for a in dst]
    else:
        neg = draw(st.booleans())
        pool = list(range(-minr, 0)) if neg else list(range(minr))
        src = list(draw(st.permutations(pool)))[:k]
        dst = list(draw(st.permutations(pool)))[:k]
    form = draw(st.sampled_from(['tuple', 'list', 'int'])) if k == 1 else draw(st.sampled_from(['tuple', 'list']))
    return {'op': 'move', 'S': _tree(draw, leaves), 'src': src, 'dst': dst, 'form': form,
            'probe': draw(st.integers(0, 1000))}


@st.composite
def ravel_case(draw, mode):
    nl = draw(st.sampled_from([1, 1, 2, 3]))
    leaves = [St.leaf(_shape(draw, 1, 4), draw(st.sampled_from(gen.dtypes(mode)))) for _ in range(nl)]
    shapes = [l['shape'] for l in leaves]
    minr = min(len(s) for s in shapes)
    kind = draw(st.sampled_from(['pos', 'neg', 'mixed', 'mixed_nf', 'default', 'illegal_same', 'illegal_mixed',
                                 'illegal_mixed_nf']))
    maxr = max(len(s) for s in shapes)
    legal = True
    if kind == 'default':
        f, l = 0, -1
    elif kind == 'pos':
        f = draw(st.integers(0, minr - 1))
        l = draw(st.integers(f, minr - 1))
    elif kind == 'neg':
        l = draw(st.integers(-minr, -1))
        f = draw(st.integers(-minr, l))
    elif kind == 'mixed':
        l = draw(st.integers(-minr, -1))
        f = draw(st.integers(0, minr + l))
    elif kind == 'mixed_nf':
        # negative first, non-negative last: legal iff ndim + first <= last on the leaf of LARGEST rank
        l = draw(st.integers(0, minr - 1))
        f = draw(st.integers(-minr, min(-1, l - maxr))) if l - maxr >= -minr else None
        if f is None:
            f, l = 0, -1
    elif kind == 'illegal_mixed_nf':
        legal = False
        l = draw(st.integers(0, minr - 1))
        lo = max(-minr, l - maxr + 1)
        if lo > -1:
            f, l = 1, 0
        else:
            f = draw(st.integers(lo, -1))
    elif kind == 'illegal_same':
        legal = False
        if draw(st.booleans()) and minr >= 2:
            l = draw(st.integers(0, minr - 2))
            f = draw(st.integers(l + 1, minr - 1))
        elif minr >= 2:
            f = draw(st.integers(-minr + 1, -1))
            l = draw(st.integers(-minr, f - 1))
        else:
            f, l = 1, 0
    else:
        # mixed signs resolving to first > last on the leaf of smallest rank
        legal = False
        l = draw(st.integers(-minr, -1))
        f = minr + l + draw(st.integers(1, 2))
        if f > minr + 1:
            f = minr + l + 1
    return {'op': 'ravel', 'S': _tree(draw, leaves), 'first': f, 'last': l, 'legal': legal, 'defaults': kind == 'default' and draw(st.booleans()),
            'probe': draw(st.integers(0, 1000))}


@st.composite
def reshape_case(draw, mode):
    nl = draw(st.sampled_from([1, 1, 2]))
    base = _shape(draw, 0, 3)
    n = math.prod(base)
    legal = draw(st.integers(0, 4)) != 0
    fac = list(draw(st.sampled_from(gen._factorizations(n))))
    if draw(st.booleans()) and len(fac) < 4:
        fac.insert(draw(st.integers(0, len(fac))), 1)
    arg = list(fac)
    minus = draw(st.booleans())
    leaves = [St.leaf(base, draw(st.sampled_from(gen.dtypes(mode))))]
    if minus:
        pos = draw(st.integers(0, len(arg) - 1))
        known = math.prod(arg[:pos] + arg[pos + 1:])
        arg[pos] = -1
        for _ in range(nl - 1):
            mult = draw(st.integers(1, 3))
            leaves.append(St.leaf([known * mult] if draw(st.booleans()) else [mult, known], 'float32'))
    else:
        for _ in range(nl - 1):
            other = list(draw(st.sampled_from(gen._factorizations(n))))
            leaves.append(St.leaf(other, 'float32'))
    if not legal:
        # a target shape of a different size for the first leaf
        if minus:
            arg = [-1, n + 1] if draw(st.booleans()) else [n + 1, -1]
        else:
            arg = arg + [2]
    return {'op': 'reshape', 'S': _tree(draw, leaves), 'shape': arg, 'legal': legal, 'probe': draw(st.integers(0, 1000))}


def strategy(tier, mode):
    return st.one_of(move_case(mode), move_case(mode), ravel_case(mode), ravel_case(mode), reshape_case(mode), reshape_case(mode))


def sweep(tier, mode, shard, nshards):
    if mode != 'x32':
        return
    dims = [1, 2, 3]
    maxrank = 3 if tier == 'quick' else 4
    idx = 0
    for r in range(1, maxrank + 1):
        for shape in itertools.product(dims, repeat=r):
            if math.prod(shape) > 36:
                continue
            S = St.leaf(list(shape), 'float32')
            rng = range(-r, r)
            cases = []
            for f in rng:
                for l in rng:
                    fn, ln = (f + r if f < 0 else f), (l + r if l < 0 else l)
                    cases.append({'op': 'ravel', 'S': S, 'first': f, 'last': l, 'legal': fn <= ln, 'defaults': False, 'probe': 1})
            if r >= 2 and (tier == 'thorough' or r <= 3):
                for s in rng:
                    for d in rng:
                        cases.append({'op': 'move', 'S': S, 'src': [s], 'dst': [d], 'form': 'int', 'probe': 2})
            if tier == 'thorough' or r <= 2:
                for fac in gen._factorizations(math.prod(shape)):
                    cases.append({'op': 'reshape', 'S': S, 'shape': list(fac), 'legal': True, 'probe': 3})
                    for j in range(len(fac)):
                        a = list(fac)
                        a[j] = -1
                        cases.append({'op': 'reshape', 'S': S, 'shape': a, 'legal': True, 'probe': 3})
            for c in cases:
                idx += 1
                if idx % nshards == shard:
                    yield c
    yield {'__sweep_meta__': True, 'exhaustive': True,
           'extra': {'sweep_box': f'single leaves of rank 1..{maxrank}, dims in {dims} (<= 36 elements): every (first,last) ravel pair in [-r, r), every single-axis move, every factorisation reshape with each entry replaced by -1'}}


def _np_apply(recipe, x):
    if recipe['op'] == 'move':
        return np.moveaxis(x, tuple(recipe['src']), tuple(recipe['dst']))
    if recipe['op'] == 'ravel':
        return x.reshape(ops.ravel_shape(x.shape, recipe['first'], recipe['last']))
    return x.reshape(tuple(recipe['shape']))


def _construct(recipe):
    from furax import MoveAxisOperator, RavelOperator, ReshapeOperator

    S = St.to_jax(recipe['S'])
    if recipe['op'] == 'move':
        src, dst = recipe['src'], recipe['dst']
        if recipe['form'] == 'int':
            return MoveAxisOperator(src[0], dst[0], in_structure=S)
        if recipe['form'] == 'tuple':
            return MoveAxisOperator(tuple(src), tuple(dst), in_structure=S)
        return MoveAxisOperator(list(src), list(dst), in_structure=S)
    if recipe['op'] == 'ravel':
        if recipe.get('defaults'):
            return RavelOperator(in_structure=S)
        return RavelOperator(recipe['first'], recipe['last'], in_structure=S)
    return ReshapeOperator(tuple(recipe['shape']), in_structure=S)


def check(recipe, mode):
    from furax._base.core import IdentityOperator

    S = recipe['S']
    ls = St.leaves(S)
    classes = ['op:' + recipe['op']]
    if recipe.get('legal') is False:
        must_raise(f'illegal-{recipe["op"]}', _construct, recipe, exc=(ValueError,))
        return {'nontrivial': True, 'classes': classes + ['illegal']}
    # numpy reference per leaf
    p = recipe['probe']
    xs = [np.arange(math.prod(sh), dtype=float).reshape(sh) * (1 + (p + i) % 3) + i for i, (sh, _) in enumerate(ls)]
    want = [_np_apply(recipe, x) for x in xs]
    out_S = St.replace_leaves(S, [(w.shape, dt) for w, (_, dt) in zip(want, ls)])
    op = must_not_raise('construct', _construct, recipe)
    declared = must_not_raise('out_structure', op.out_structure)
    if not St.same_structure(out_S, declared):
        raise Violation('out_structure', f'declared {St.describe(declared)}; numpy gives {St.describe(St.to_jax(out_S))}')
    x = St.build_value(S, xs)
    y = must_not_raise('mv', op.mv, x)
    if not St.same_structure(out_S, y):
        raise Violation('mv-structure', f'returned {St.describe(y)}; numpy gives {St.describe(St.to_jax(out_S))}')
    got = St.flat_of_value(y)
    w = np.concatenate([a.reshape(-1) for a in want])
    if not np.array_equal(got, w):
        raise Violation('mv-value', f'{recipe["op"]} differs from numpy: got {got[:10]} want {w[:10]}')
    # transpose is the inverse
    T = must_not_raise('transpose', lambda: op.T)
    if not St.same_structure(out_S, T.in_structure()) or not St.same_structure(S, T.out_structure()):
        raise Violation('T-structure', 'structures of the transpose are not swapped')
    back = must_not_raise('T-mv', T.mv, y)
    if not St.same_structure(S, back) or not np.array_equal(St.flat_of_value(back), St.flat_of_value(x)):
        raise Violation('T-not-inverse', 'op.T(op(x)) != x')
    ys = [np.arange(math.prod(a.shape), dtype=float).reshape(a.shape) * 2 - 5 for a in want]
    yv = St.build_value(out_S, ys)
    fwd = must_not_raise('mv', op.mv, must_not_raise('T-mv', T.mv, yv))
    if not np.array_equal(St.flat_of_value(fwd), St.flat_of_value(yv)):
        raise Violation('T-not-inverse', 'op(op.T(y)) != y')
    n = St.size(S)
    if n <= 12:
        M = ops.dense_by_basis(op, S)
        MT = ops.dense_by_basis(T, out_S)
        if not (np.isin(M, (0, 1)).all() and (M.sum(axis=0) == 1).all() and (M.sum(axis=1) == 1).all()):
            raise Violation('not-a-permutation', 'dense matrix is not a permutation matrix')
        if not np.array_equal(MT, M.T):
            raise Violation('T-dense', 'dense(op.T) is not the transpose of dense(op)')
        classes.append('dense_compared')
    # reduce(): identity iff every leaf shape is unchanged
    red = must_not_raise('reduce', op.reduce)
    unchanged = all(tuple(a.shape) == tuple(sh) for a, (sh, _) in zip(want, ls))
    if recipe['op'] in ('ravel', 'reshape'):
        if isinstance(red, IdentityOperator) != unchanged:
            raise Violation('noop-reduction', f'reduce() is {type(red).__name__} but shapes unchanged = {unchanged}')
    elif isinstance(red, IdentityOperator) and not np.array_equal(got, St.flat_of_value(x)):
        raise Violation('noop-reduction', 'move-axis reduced to the identity although it moves elements')
    # inverse pairs reduce to the identity map
    for name, pair in (('opT@op', T @ op), ('op@opT', op @ T)):
        rp = must_not_raise('pair-reduce', pair.reduce)
        src_S, src_x = (S, x) if name == 'opT@op' else (out_S, yv)
        z = must_not_raise('pair-mv', rp.mv, src_x)
        if not St.same_structure(src_S, z) or not np.array_equal(St.flat_of_value(z), St.flat_of_value(src_x)):
            raise Violation('pair-not-identity', f'({name}).reduce() is not the identity map')
    # a different reshape with the same OUTPUT structure is not an inverse partner
    if recipe['op'] in ('ravel', 'reshape') and len(ls) == 1 and ls[0][0] != ():
        from furax import ReshapeOperator

        in_shape, dt = ls[0]
        out_shape = tuple(want[0].shape)
        others = [f for f in gen._factorizations(math.prod(in_shape)) if tuple(f) != tuple(in_shape)]
        if others:
            f = others[p % len(others)]
            partner = ReshapeOperator(out_shape, in_structure=St.to_jax(St.leaf(f, dt)))
            rp = must_not_raise('near-miss-pair-reduce', (T @ partner).reduce)
            z0 = np.arange(math.prod(f), dtype=float).reshape(f) + 1
            z = must_not_raise('near-miss-pair-mv', rp.mv, St.build_value(St.leaf(f, dt), [z0]))
            if tuple(np.shape(z)) != tuple(in_shape) or not np.array_equal(np.asarray(z, dtype=float).reshape(-1), z0.reshape(-1)):
                raise Violation('pair-rule-unsound', f'(A.T @ B).reduce() for two different reshapes {f}->{out_shape}<-{in_shape} '
                                                     f'returned shape {np.shape(z)}')
            classes.append('near_miss_partner')
    if recipe['op'] == 'move' and len({len(sh) for sh, _ in ls}) >= 2:
        # the "inverse" written with the other sign convention relative to the FIRST leaf's rank: an inverse pair for
        # leaves of that rank only
        from furax import MoveAxisOperator

        nd0 = len(ls[0][0])
        minr = min(len(sh) for sh, _ in ls)
        flip = lambda a: a - nd0 if a >= 0 else a + nd0  # noqa: E731
        src2, dst2 = [flip(a) for a in recipe['dst']], [flip(a) for a in recipe['src']]
        if all(-minr <= a < minr for a in src2 + dst2):
            try:
                ref = [np.moveaxis(a, tuple(src2), tuple(dst2)) for a in want]
            except Exception:  # noqa: BLE001
                ref = None
            if ref is not None:
                partner = MoveAxisOperator(tuple(src2), tuple(dst2), in_structure=St.to_jax(out_S))
                rp = must_not_raise('near-miss-move-pair-reduce', (partner @ op).reduce)
                z = must_not_raise('near-miss-move-pair-mv', rp.mv, x)
                gotz = St.flat_of_value(z)
                wz = np.concatenate([a.reshape(-1) for a in ref])
                if gotz.shape != wz.shape or not np.array_equal(gotz, wz):
                    raise Violation('move-pair-rule-unsound', f'(Move({src2}->{dst2}) @ Move({recipe["src"]}->{recipe["dst"]})).reduce() '
                                                              f'changes the map on leaves of shapes {[sh for sh, _ in ls]}')
                classes.append('near_miss_move_partner')
    if recipe['op'] == 'move' and len(recipe['src']) >= 2:
        # the would-be inverse with its axes PAIRED differently (same sets of source and destination axes, rotated
        # pairing): not the inverse, the pair must keep denoting the composition
        from furax import MoveAxisOperator

        src2 = list(recipe['dst'])
        dst2 = list(recipe['src'])[1:] + list(recipe['src'])[:1]
        try:
            ref = [np.moveaxis(a, tuple(src2), tuple(dst2)) for a in want]
        except Exception:  # noqa: BLE001
            ref = None
        if ref is not None:
            partner = must_not_raise('shuffled-move-partner', MoveAxisOperator, tuple(src2), tuple(dst2), in_structure=St.to_jax(out_S))
            rp = must_not_raise('shuffled-move-pair-reduce', (partner @ op).reduce)
            z = must_not_raise('shuffled-move-pair-mv', rp.mv, x)
            gotz = St.flat_of_value(z)
            wz = np.concatenate([a.reshape(-1) for a in ref])
            if gotz.shape != wz.shape or not np.array_equal(gotz, wz):
                raise Violation('move-pair-rule-unsound', f'(Move({src2}->{dst2}) @ Move({recipe["src"]}->{recipe["dst"]})).reduce() '
                                                          f'changes the map on leaves of shapes {[sh for sh, _ in ls]}')
            classes.append('shuffled_move_partner')
    nontrivial = len({len(sh) for sh, _ in ls}) >= 2
    if recipe['op'] == 'move':
        sg = [a < 0 for a in list(recipe['src']) + list(recipe['dst'])]
        if any(sg) and not all(sg):
            nontrivial = True
            classes.append('mixed_sign')
        if len(recipe['src']) >= 2:
            classes.append('multi_axis')
    if recipe['op'] == 'ravel' and (recipe['first'] < 0) != (recipe['last'] < 0):
        nontrivial = True
        classes.append('mixed_sign')
    if recipe['op'] == 'reshape' and -1 in recipe['shape']:
        nontrivial = True
        classes.append('minus_one')
    if len(ls) >= 2:
        classes.append('multi_leaf')
    if unchanged:
        classes.append('noop')
    return {'nontrivial': nontrivial, 'classes': classes}
