"""C07 - reduction reaches the documented normal form in every context.

Typed token chains: documented patterns embedded in contexts of inert operators; the implementation's
reduce() is compared with a small reference reducer over tokens (a), every adjacent pair of the result
is re-submitted to all registered rules (b), scalar factors are counted and located (c).
"""

from __future__ import annotations

import math

import numpy as np
from hypothesis import strategies as st

from .. import gen, ops
from .. import structs as St
from ..common import Violation, must_not_raise
from ..rulewatch import RuleWatch

PROP = 'C07'
EXAMPLES = {'quick': 110, 'thorough': 4000}
RULE = (
    'Hypothesis builds typed token chains: 1-4 documented patterns (identity factors, several scalars, an operator '
    'next to its own lazy inverse, QU rotations and their transposes, rotation-then-HWP, polariser-then-HWP, block '
    'row/diag/column runs with equal layouts, P @ P.T for duplicate-free indexing and packing, P.T @ P for one '
    'indexed axis, reshape/ravel and move-axis inverse pairs) embedded at random positions between 0-3 distinct inert '
    'operators, plus purpose-built cascades (nested inverse pairs, a removable pair between two rotations, a '
    'scalar-producing block product next to other scalars and patterns); total length <= 12 (20 thorough). Oracle: (a) '
    'the token sequence of reduce() equals that of a reference reducer implementing the documented rules to a '
    'fixpoint; (b) no adjacent pair of the result is accepted by any registered rule; (c) at most one scalar factor, '
    'equal to the product, on the side with fewer elements (either end when equal), and no identity among >= 2 '
    'operands. non-trivial = >= 2 rewrites, or one rewrite at position >= 1 with a non-empty left context.'
    ' Also (P_other): a selection next to the transpose of ANOTHER selection with the same structures stands in the chain, to the left of a genuine P @ P.T: it must stay and must not prevent the genuine pattern from being rewritten.'
    ' Also: Stokes chains whose components have different precision; half-precision chains ending (output side) in a wider-typed operator with fewer elements (the scalar goes to the side with fewer ELEMENTS).'
)
ASSUMPTIONS = [
    'pattern operators are non-degenerate (no no-op reshape / indexing, no zero rotation), inert operators are rule-free',
    'value preservation is judged by C01, not here',
    'an additional simplification by furax beyond the documented ones is recorded, not flagged',
]


# =============================================================================================
# generation


class Chain:
    def __init__(self, mode, S, family):
        self.G = gen.GenCtx(mode, cap=24)
        self.S = S
        self.family = family
        self.items: list = []  # left-to-right: {'tok': [...], 'r': recipe}

    def define(self, r):
        return self.G.define(r)['i']


def _inert(draw, C, S):
    """A rule-free square operator on S (distinct object), returns def index."""
    kinds = ['dense', 'diagn']
    if S['t'] == 'leaf':
        kinds.append('toeplitz')
    k = draw(st.sampled_from(kinds))
    # parameters in the narrowest dtype of the structure: the operator keeps every leaf's dtype (it is square)
    vd = 'float16' if any(dt_ == 'float16' for _, dt_ in St.leaves(S)) else 'float32'
    if k == 'dense':
        r = gen.g_dense(draw, C.G, S, square=True)
        r['vdtype'] = vd
    elif k == 'diagn':
        r = gen.g_diag(draw, C.G, S, zeros=False)
        r['vdtype'] = vd
    else:
        r = gen.g_toeplitz(draw, C.G, S)
        r['vdtype'] = vd
    return C.define(r)


def _ctx(draw, C, S, lo=0, hi=3):
    return [{'tok': ['A', _inert(draw, C, S)]} for _ in range(draw(st.integers(lo, hi)))]


def _angles(draw, S):
    pool = [0.25, -0.25, 0.5, -0.75, 1.0, -1.25, 0.125, 0.375]
    n = S['shape'][0] if S['shape'] else 1
    if draw(st.booleans()):
        return [draw(st.sampled_from(pool))] if S['shape'] else draw(st.sampled_from(pool))
    return [draw(st.sampled_from(pool)) for _ in range(n)] if S['shape'] else draw(st.sampled_from(pool))


def _rot(draw, C, S):
    vd = 'float16' if any(dt_ == 'float16' for _, dt_ in St.leaves(S)) else 'float32'
    return C.define({'k': 'rot', 'in': S, 'angles': _angles(draw, S), 'vdtype': vd})


def pattern(draw, C, S, allow_pol=False):
    """Returns (list of items left-to-right, name). All patterns map S to S (except pol: S to a leaf)."""
    names = ['identity', 'scalars', 'inverse', 'inverse', 'nested_inverse', 'blocks', 'blocks', 'scalar_blocks']
    arr = S['t'] == 'leaf'
    rank = len(S['shape'])
    if S['t'] == 'stokes' and S['kind'] != 'I':
        names += ['rotrot', 'rotrot', 'rothwp', 'rothwp', 'rot_pair_rot', 'rot3']
        if allow_pol:
            names += ['polhwp', 'polhwp']
    if rank >= 1:
        names += ['PPt', 'PtP', 'PtP', 'XXt', 'XtX', 'pack', 'P_other']
    if rank >= 2:
        names += ['move', 'move']
    name = draw(st.sampled_from(names))
    if name == 'identity':
        items = [{'tok': ['id']}]
        if draw(st.booleans()):
            items = items + _ctx(draw, C, S, 0, 1) + [{'tok': ['id']}]
        return items, name
    if name == 'scalars':
        vals = [draw(st.sampled_from([2.0, -1.0, 0.5, 3.0, -2.0])) for _ in range(draw(st.integers(2, 3)))]
        items = []
        for v in vals:
            items += [{'tok': ['hom', v]}] + _ctx(draw, C, S, 0, 1)
        return items, name
    if name == 'inverse':
        i = _inert(draw, C, S) if S['t'] == 'leaf' or draw(st.booleans()) else _inert(draw, C, S)
        pair = [{'tok': ['Ainv', i]}, {'tok': ['A', i]}]
        if draw(st.booleans()):
            pair.reverse()
        return pair, name
    if name == 'nested_inverse':
        ids = [_inert(draw, C, S) for _ in range(draw(st.integers(2, 3)))]
        left = [{'tok': ['Ainv', i]} for i in ids]
        right = [{'tok': ['A', i]} for i in reversed(ids)]
        if draw(st.booleans()):
            return left + right, name  # B.I A.I A B
        return list(reversed(right)) + list(reversed(left)), name  # A B B.I A.I  -> tokens A_i.. then inverses
    if name in ('blocks', 'scalar_blocks'):
        k = draw(st.integers(1, 3)) if name == 'blocks' else 1
        cont = draw(st.sampled_from(['list', 'tuple', 'dict']))
        if name == 'scalar_blocks':
            a, b = draw(st.sampled_from([2.0, -1.0, 0.5, 3.0])), draw(st.sampled_from([2.0, -3.0, 0.25]))
            return [{'tok': ['brow_h', a, cont]}, {'tok': ['bcol_h', b, cont]}], name
        ndiag = draw(st.integers(0, 2))
        items = [{'tok': ['brow', [[['A', _inert(draw, C, S)]] for _ in range(k)], cont]}]
        for _ in range(ndiag):
            items.append({'tok': ['bdiag', [[['A', _inert(draw, C, S)]] for _ in range(k)], cont]})
        items.append({'tok': ['bcol', [[['A', _inert(draw, C, S)]] for _ in range(k)], cont]})
        return items, name
    if name == 'rotrot':
        n = draw(st.integers(2, 3))
        return [{'tok': ['rot', _rot(draw, C, S), draw(st.sampled_from([1, -1]))]} for _ in range(n)], name
    if name == 'rot3':
        i = _rot(draw, C, S)
        # R.T next to its own R (lazy-inverse rule), possibly with another rotation around
        items = [{'tok': ['rot', i, -1]}, {'tok': ['rot', i, 1]}]
        if draw(st.booleans()):
            items.reverse()
        if draw(st.booleans()):
            items.append({'tok': ['rot', _rot(draw, C, S), 1]})
        return items, name
    if name == 'rothwp':
        items = [{'tok': ['rot', _rot(draw, C, S), draw(st.sampled_from([1, -1]))]} for _ in range(draw(st.integers(1, 2)))]
        items.append({'tok': ['hwp']})
        if draw(st.booleans()):
            items.append({'tok': ['rot', _rot(draw, C, S), 1]})
        return items, name
    if name == 'rot_pair_rot':
        i = _inert(draw, C, S)
        pair = [{'tok': ['Ainv', i]}, {'tok': ['A', i]}]
        if draw(st.booleans()):
            pair.reverse()
        return [{'tok': ['rot', _rot(draw, C, S), 1]}] + pair + [{'tok': ['rot', _rot(draw, C, S), draw(st.sampled_from([1, -1]))]}], name
    if name == 'polhwp':
        return [{'tok': ['pol']}, {'tok': ['hwp']}], name
    shape = list(S['shape'])
    if name == 'PPt':
        # P: U -> S duplicate-free selection along axis 0
        m = shape[0]
        n = draw(st.integers(m + (0 if m > 1 else 1), m + 2))
        vals = list(draw(st.permutations(list(range(n)))))[:m]
        if vals == list(range(n)):
            vals = vals[::-1] if m > 1 else vals
        vals = [v - n if draw(st.booleans()) else v for v in vals]
        inS = St.map_leaves(S, lambda sh, dt: ((n,) + tuple(sh[1:]), dt))
        form = draw(st.sampled_from(['array', 'array', 'slice', 'mask', 'last_slice', 'last_mask']))
        if form == 'array':
            i = C.define({'k': 'index', 'in': inS, 'idx': [{'a': vals}], 'explicit_out': draw(st.booleans()),
                          'unique': True, 'bare': draw(st.booleans())})
        else:
            # duplicate-free by construction (slices / masks, with or without an ellipsis): uniqueness is inferred
            last = form.startswith('last')
            m_ = shape[-1] if last else shape[0]
            n_ = draw(st.integers(m_ + 1, m_ + 2))
            if last:
                inS = St.map_leaves(S, lambda sh, dt: (tuple(sh[:-1]) + (n_,), dt))
            else:
                inS = St.map_leaves(S, lambda sh, dt: ((n_,) + tuple(sh[1:]), dt))
            if form.endswith('slice'):
                a = draw(st.integers(0, n_ - m_))
                ent = {'s': [a, a + m_, None]}
            else:
                pos = sorted(list(draw(st.permutations(list(range(n_)))))[:m_])
                ent = {'m': [j in pos for j in range(n_)]}
            if last:
                idx = [{'e': 1}, ent]
            else:
                idx = [ent] + ([{'e': 1}] if draw(st.booleans()) else [])
            i = C.define({'k': 'index', 'in': inS, 'idx': idx, 'explicit_out': True if 'm' in ent else draw(st.booleans()),
                          'unique': None, 'bare': False})
        return [{'tok': ['P', i]}, {'tok': ['PT', i]}], name
    if name == 'P_other':
        # near miss: P_b next to the transpose of ANOTHER selection P_a with the same structures. No documented
        # pattern: it must stay, and must not stop a genuine P @ P.T elsewhere in the chain from being rewritten
        m = shape[0]
        n = draw(st.integers(m + 1, m + 2))
        inS = St.map_leaves(S, lambda sh, dt: ((n,) + tuple(sh[1:]), dt))
        kind_ = draw(st.sampled_from(['index', 'index', 'pack']))
        ids = []
        for _ in range(2):
            vals = list(draw(st.permutations(list(range(n)))))[:m]
            if kind_ == 'index':
                ids.append(C.define({'k': 'index', 'in': inS, 'idx': [{'a': vals}], 'explicit_out': True,
                                     'unique': draw(st.sampled_from([True, None])), 'bare': False}))
            else:
                ids.append(C.define({'k': 'pack', 'in': inS, 'mask': [j in vals for j in range(n)]}))
        if draw(st.booleans()):
            return [{'tok': ['P', ids[0]]}, {'tok': ['PT', ids[1]]}], name  # S <- U <- S
        # P_a.T @ P_b on the larger space is only possible when the chain lives there: use S as the small side
        return [{'tok': ['P', ids[1]]}, {'tok': ['PT', ids[0]]}] + _ctx(draw, C, S, 0, 1) + \
            [{'tok': ['P', ids[0]]}, {'tok': ['PT', ids[0]]}], name
    if name == 'pack':
        m = shape[0]
        n = draw(st.integers(m, m + 2))
        pos = sorted(list(draw(st.permutations(list(range(n)))))[:m])
        inS = St.map_leaves(S, lambda sh, dt: ((n,) + tuple(sh[1:]), dt))
        i = C.define({'k': 'pack', 'in': inS, 'mask': [j in pos for j in range(n)]})
        return [{'tok': ['P', i]}, {'tok': ['PT', i]}], name
    if name == 'PtP':
        n = shape[0]
        m = draw(st.integers(2, n + 2))
        vals = draw(st.lists(st.integers(-n, n - 1), min_size=m, max_size=m))
        form = draw(st.sampled_from(['first', 'first', 'last', 'rank2']))
        if form == 'rank2':
            vals = draw(st.lists(st.integers(-n, n - 1), min_size=4, max_size=4))
            idx = [{'a': np.asarray(vals).reshape(2, 2).tolist()}]
        elif form == 'last':
            nl = shape[-1]
            vals = draw(st.lists(st.integers(-nl, nl - 1), min_size=m, max_size=m))
            idx = [{'e': 1}, {'a': vals}]
        else:
            idx = [{'a': vals}]
        i = C.define({'k': 'index', 'in': S, 'idx': idx, 'explicit_out': draw(st.booleans()),
                      'unique': draw(st.sampled_from([None, False])), 'bare': False})
        return [{'tok': ['PT', i]}, {'tok': ['P', i]}], name
    if name == 'XtX':
        # R: S -> V (a genuine reshape), R.T @ R
        size = math.prod(shape) * (1 if S['t'] == 'leaf' else 1)
        cands = [f for f in gen._factorizations(math.prod(shape)) if list(f) != shape]
        if not cands:
            return [{'tok': ['id']}], 'identity'
        f = list(draw(st.sampled_from(cands)))
        use_ravel = len(shape) >= 2 and draw(st.booleans())
        if use_ravel:
            i = C.define({'k': 'ravel', 'in': S, 'first': 0, 'last': -1})
        else:
            i = C.define({'k': 'reshape', 'in': S, 'shape_arg': f, 'shape': f})
        return [{'tok': ['XT', i]}, {'tok': ['X', i]}], name
    if name == 'XXt':
        cands = [f for f in gen._factorizations(math.prod(shape)) if list(f) != shape]
        if not cands:
            return [{'tok': ['id']}], 'identity'
        f = list(draw(st.sampled_from(cands)))
        inS = St.map_leaves(S, lambda sh, dt: (tuple(f), dt))
        if len(f) >= 2 and len(shape) == 1 and draw(st.booleans()):
            i = C.define({'k': 'ravel', 'in': inS, 'first': 0, 'last': -1})
        else:
            i = C.define({'k': 'reshape', 'in': inS, 'shape_arg': shape, 'shape': shape})
        return [{'tok': ['X', i]}, {'tok': ['XT', i]}], name
    if name == 'move':
        nd = len(shape)
        s, d = draw(st.permutations(list(range(nd))))[:2] if nd > 2 else (0, 1)
        if draw(st.booleans()):
            s, d = s - nd, d - nd
        i = C.define({'k': 'move', 'in': S, 'src': [s], 'dst': [d]})
        mid = C.G.out_of(C.G.defs[i])
        j = C.define({'k': 'move', 'in': mid, 'src': [d], 'dst': [s]})
        return [{'tok': ['mv', j]}, {'tok': ['mv', i]}], name
    raise ValueError(name)


@st.composite
def chain_case(draw, tier, mode):
    family = draw(st.sampled_from(['arr', 'arr', 'stk', 'stk', 'stk']))
    if family == 'arr':
        shape = draw(st.sampled_from([[3], [4], [2, 3], [3, 2], [2, 2], [4, 2]]))
        S = St.leaf(shape, 'float32')
    else:
        S = St.stokes(draw(st.sampled_from(['QU', 'IQU', 'IQUV', 'QU'])), [draw(st.integers(1, 3))], 'float32')
        if draw(st.integers(0, 4)) == 0:
            # components of different precision (same shapes): the documented patterns do not depend on the dtypes
            S['dtypes'] = [draw(st.sampled_from(['float32', 'float16'])) for _ in S['kind']]
            if len(set(S['dtypes'])) == 1:
                S['dtypes'][0] = 'float16' if S['dtypes'][0] == 'float32' else 'float32'
    narrow_in = family == 'arr' and len(shape) == 1 and shape[0] >= 3 and draw(st.integers(0, 4)) == 0
    if narrow_in:
        # half-precision data: the chain will end (output side) in a wider-typed operator with FEWER elements but MORE
        # bytes than the input: "the side with fewer elements" is about elements
        S = St.leaf(shape, 'float16')
    C = Chain(mode, S, family)
    npat = draw(st.integers(1, 4 if tier == 'quick' else 6))
    items = _ctx(draw, C, S, 0, 3)
    names = []
    for _ in range(npat):
        p, name = pattern(draw, C, S)
        names.append(name)
        items += p
        items += _ctx(draw, C, S, 0, 2)
    # polariser-then-HWP can only stand at the output end (it leaves the Stokes space)
    if family == 'stk' and draw(st.integers(0, 3)) == 0:
        outS = St.leaf(S['shape'], S['dtype'])
        left = _ctx(draw, C, outS, 0, 2)
        items = left + [{'tok': ['pol']}, {'tok': ['hwp']}] + items
        names.append('polhwp')
    elif draw(st.integers(0, 3)) == 0:
        # a block run that ends in the container space can only stand at the output end
        k = draw(st.integers(1, 3))
        cont = draw(st.sampled_from(['list', 'tuple', 'dict']))
        form = draw(st.sampled_from(['inert', 'inert', 'inverse_blocks', 'inverse_blocks', 'mixed']))
        if form == 'inert':
            run = [{'tok': ['bdiag', [[['A', _inert(draw, C, S)]] for _ in range(k)], cont]} for _ in range(draw(st.integers(1, 2)))]
        else:
            # two block diagonals whose blocks are mutually inverse pairs: their product is a block diagonal of
            # identities, i.e. the identity (documented in BlockDiagonalOperator.reduce)
            left, right = [], []
            for b in range(k):
                if form == 'mixed' and b == 0:
                    left.append([['A', _inert(draw, C, S)]])
                    right.append([['A', _inert(draw, C, S)]])
                    continue
                if len(S['shape']) >= 1:
                    kind_ = draw(st.sampled_from(['inv', 'index', 'index', 'reshape'] if S['t'] == 'leaf' else ['inv', 'index', 'index']))
                else:
                    kind_ = 'inv'
                if kind_ == 'inv':
                    i = _inert(draw, C, S)
                    pair = [[['Ainv', i]], [['A', i]]]
                    if draw(st.booleans()):
                        pair.reverse()
                elif kind_ == 'index':
                    # blocks that become identities only through their own reduction: P @ P.T, duplicate-free P
                    shape_ = list(S['shape'])
                    m_ = shape_[0]
                    n_ = draw(st.integers(m_ + 1, m_ + 2))
                    vals_ = list(draw(st.permutations(list(range(n_)))))[:m_]
                    inS_ = St.map_leaves(S, lambda sh, dt: ((n_,) + tuple(sh[1:]), dt))
                    i = C.define({'k': 'index', 'in': inS_, 'idx': [{'a': vals_}], 'explicit_out': True, 'unique': True, 'bare': False})
                    pair = [[['P', i]], [['PT', i]]]
                else:
                    shape_ = list(S['shape'])
                    cands_ = [f for f in gen._factorizations(math.prod(shape_)) if list(f) != shape_]
                    if cands_:
                        f_ = list(draw(st.sampled_from(cands_)))
                        inS_ = St.map_leaves(S, lambda sh, dt: (tuple(f_), dt))
                        i = C.define({'k': 'reshape', 'in': inS_, 'shape_arg': shape_, 'shape': shape_})
                        pair = [[['X', i]], [['XT', i]]]
                    else:
                        i = _inert(draw, C, S)
                        pair = [[['Ainv', i]], [['A', i]]]
                left.append(pair[0])
                right.append(pair[1])
            run = [{'tok': ['bdiag', left, cont]}, {'tok': ['bdiag', right, cont]}]
            if draw(st.integers(0, 3)) == 0:
                run = [{'tok': ['bdiag', [[['A', _inert(draw, C, S)]] for _ in range(k)], cont]}] + run
            if draw(st.integers(0, 3)) != 0:
                # a rule-free operator acting on the whole container separates the pair from the block column
                if cont == 'dict':
                    Sc = {'t': 'dict', 'items': [[key, S] for key in ['a', 'b', 'c'][:k]]}
                else:
                    Sc = {'t': cont, 'items': [S] * k}
                run.append({'tok': ['A', _inert(draw, C, Sc)]})
            names.append('blocks_inverse_pair')
        run.append({'tok': ['bcol', [[['A', _inert(draw, C, S)]] for _ in range(k)], cont]})
        items = run + items
        names.append('blocks_left_end')
    if narrow_in and not any(n_ in names for n_ in ('polhwp', 'blocks_left_end')):
        n_ = shape[0]
        m_ = n_ - 1  # fewer elements, but 4 m > 2 n bytes
        vals_ = [[float(draw(st.integers(-2, 2))) for _ in range(n_)] for _ in range(m_)]
        i_ = C.define({'k': 'dense', 'in': S, 'blocks': {'shared': vals_}, 'subscripts': 'ij,j->i', 'vdtype': 'float32'})
        items = [{'tok': ['A', i_]}] + items
        if not any(it['tok'][0] == 'hom' for it in items):
            items.insert(draw(st.integers(1, len(items))), {'tok': ['hom', draw(st.sampled_from([2.0, -3.0, 0.5]))]})
        names.append('wider_output_with_fewer_elements')
    if S.get('dtypes'):
        names.append('mixed_precision_components')
    return {'S': S, 'defs': C.G.defs, 'items': [it['tok'] for it in items], 'names': names}


def strategy(tier, mode):
    return chain_case(tier, mode)


# =============================================================================================
# recipes for tokens


def _cont(c, blocks):
    if c == 'dict':
        keys = ['a', 'b', 'c'][: len(blocks)]  # sorted keys: leaf order == listed order
        return {'c': 'dict', 'items': [[k, b] for k, b in zip(keys, blocks)]}
    return {'c': c, 'items': list(blocks)}


def recipe_of(tok, cur, defs):
    """Operator recipe for a token, given the structure `cur` it is applied to."""
    t = tok[0]
    ref = lambda i: {'k': 'ref', 'i': i}  # noqa: E731
    if t == 'id':
        return {'k': 'id', 'in': cur}
    if t == 'hom':
        return {'k': 'hom', 'in': cur, 'value': tok[1], 'ty': 'py_float'}
    if t in ('A', 'P', 'X', 'mv'):
        return ref(tok[1])
    if t == 'Ainv':
        return {'k': 'I', 'op': ref(tok[1])}
    if t == 'rot':
        return ref(tok[1]) if tok[2] == 1 else {'k': 'T', 'op': ref(tok[1])}
    if t == 'hwp':
        return {'k': 'hwp', 'in': cur}
    if t == 'pol':
        return {'k': 'pol', 'in': cur}
    if t in ('PT', 'XT'):
        return {'k': 'T', 'op': ref(tok[1])}
    if t in ('brow', 'bdiag', 'bcol'):
        def entry(e):
            rs = [recipe_of(x, None, defs) for x in e]
            return rs[0] if len(rs) == 1 else {'k': 'compose', 'ops': rs, 'via': 'list', 'tree': None}
        return {'k': 'block', 'kind': t[1:], 'blocks': _cont(tok[2], [entry(e) for e in tok[1]])}
    if t == 'bcol_h':
        return {'k': 'block', 'kind': 'col', 'blocks': _cont(tok[2], [{'k': 'hom', 'in': cur, 'value': tok[1], 'ty': 'py_float'}])}
    if t == 'brow_h':
        inner = cur
        # cur is the one-block container produced by the column: the block acts on its single child
        child = St.children(cur)[0] if cur['t'] in ('tuple', 'list', 'dict') else cur
        return {'k': 'block', 'kind': 'row', 'blocks': _cont(tok[2], [{'k': 'hom', 'in': child, 'value': tok[1], 'ty': 'py_float'}])}
    raise ValueError(tok)


def build_chain(case):
    """Operator recipes right-to-left so that every recipe knows its input structure."""
    defs = case['defs']
    toks = case['items']
    cur = case['S']
    recs = [None] * len(toks)
    for pos in range(len(toks) - 1, -1, -1):
        r = recipe_of(toks[pos], cur, defs)
        recs[pos] = r
        cur = ops.out_of(r, defs)
    return recs


# =============================================================================================
# reference reducer over tokens


def _is_unique(defs, i):
    r = defs[i]
    if r['k'] == 'pack':
        return True
    if all(('i' in it or 's' in it or 'e' in it or 'm' in it) for it in r['idx']):
        return True
    return bool(r.get('unique'))


def _single_array_axis(r):
    if r['k'] != 'index':
        return False
    active = [it for it in r['idx'] if not ('e' in it or ('s' in it and it['s'] == [None, None, None]))]
    return len(active) == 1 and 'a' in active[0]


def _angles_of(defs, tok):
    if tok[0] == 'rotm':
        return np.asarray(tok[1], dtype=float)
    return tok[2] * np.asarray(defs[tok[1]]['angles'], dtype=float)


def model_reduce(toks, defs, out_le_in):
    """Documented rules to a fixpoint. Returns the token list (scalars merged and placed)."""
    toks = [list(t) for t in toks]
    if len(toks) >= 2:
        toks = [t for t in toks if t[0] != 'id']
    rewrites = 0
    first_rewrite_pos = None

    def merge_scalars(ts):
        homs = [t for t in ts if t[0] == 'hom']
        if not homs or len(ts) < 2:
            return ts, 0
        v = 1.0
        for h in homs:
            v *= h[1]
        rest = [t for t in ts if t[0] != 'hom']
        changed = 1 if (len(homs) > 1) else 0
        if out_le_in:
            return [['hom', v]] + rest, changed
        return rest + [['hom', v]], changed

    nid = len([t for t in toks if t[0] == 'id'])
    toks, ch = merge_scalars(toks)
    rewrites += ch
    changed = True
    while changed:
        changed = False
        for i in range(len(toks) - 1):
            a, b = toks[i], toks[i + 1]
            new = _pair_rule(a, b, defs)
            if new is not None:
                toks[i : i + 2] = new
                rewrites += 1
                if first_rewrite_pos is None:
                    first_rewrite_pos = i
                if any(t[0] == 'hom' for t in new):
                    toks, _ = merge_scalars(toks)
                changed = True
                break
    return toks, rewrites, first_rewrite_pos


def _pair_rule(a, b, defs):
    ta, tb = a[0], b[0]
    # operator next to its own lazy inverse
    if (ta, tb) in (('Ainv', 'A'), ('A', 'Ainv')) and a[1] == b[1]:
        return []
    # R.T next to its own R: lazy (orthogonal) inverse rule
    if ta == 'rot' and tb == 'rot' and a[1] == b[1] and a[2] == -b[2]:
        return []
    if ta in ('rot', 'rotm') and tb in ('rot', 'rotm'):
        return [['rotm', (_angles_of(defs, a) + _angles_of(defs, b)).tolist()]]
    if ta in ('rot', 'rotm') and tb == 'hwp':
        if ta == 'rot':
            return [['hwp'], ['rot', a[1], -a[2]]]
        return [['hwp'], ['rotm', (-np.asarray(a[1], dtype=float)).tolist()]]
    if ta == 'pol' and tb == 'hwp':
        return [['pol']]
    if ta == 'P' and tb == 'PT' and a[1] == b[1] and _is_unique(defs, a[1]):
        return []
    if ta == 'PT' and tb == 'P' and a[1] == b[1] and defs[a[1]]['k'] == 'index' and not _is_unique(defs, a[1]) \
            and _single_array_axis(defs[a[1]]):
        return [['cov', a[1]]]
    if (ta, tb) in (('X', 'XT'), ('XT', 'X')) and a[1] == b[1]:
        return []
    if ta == 'mv' and tb == 'mv':
        ra, rb = defs[a[1]], defs[b[1]]
        if list(ra['src']) == list(rb['dst']) and list(ra['dst']) == list(rb['src']):
            return []
    # blocks with the same layout
    blk = {'brow', 'bdiag', 'bcol'}
    if ta in blk and tb in blk and a[2] == b[2] and len(a[1]) == len(b[1]):
        inner = [_reduce_entry(list(x) + list(y), defs) for x, y in zip(a[1], b[1])]
        if (ta, tb) == ('brow', 'bdiag'):
            return [['brow', inner, a[2]]]
        if (ta, tb) == ('bdiag', 'bcol'):
            return [['bcol', inner, a[2]]]
        if (ta, tb) == ('bdiag', 'bdiag'):
            if all(len(e) == 0 for e in inner):
                return []  # BlockDiagonal([I, I, ...]) -> I, and identity factors are removed
            return [['bdiag', inner, a[2]]]
        if (ta, tb) == ('brow', 'bcol'):
            if len(inner) == 1:
                return [['seq', inner[0]]] if inner[0] else []  # a one-term sum reduces to its term
            return [['sum', inner]]
    if ta == 'brow_h' and tb == 'bcol_h' and a[2] == b[2]:
        return [['hom', a[1] * b[1]]]
    return None


def _as_list(x):
    return list(x) if isinstance(x, list) else [x]


def _reduce_entry(entry, defs):
    """Documented pair rules applied to the token list of one block, to a fixpoint."""
    entry = [list(t) for t in entry if t[0] != 'id']
    changed = True
    while changed:
        changed = False
        for i in range(len(entry) - 1):
            new = _pair_rule(entry[i], entry[i + 1], defs)
            if new is not None:
                entry[i : i + 2] = new
                changed = True
                break
    return entry


# =============================================================================================
# tokenising the implementation's result


def tokenize(op, rev, defs):
    from furax._base.axes import MoveAxisOperator, ReshapeTransposeOperator
    from furax._base.blocks import BlockColumnOperator, BlockDiagonalOperator, BlockRowOperator
    from furax._base.core import (AbstractLazyInverseOperator, AdditionOperator, CompositionOperator,
                                  HomothetyOperator, IdentityOperator, TransposeOperator)
    from furax._base.diagonal import DiagonalOperator
    from furax.operators.hwp import HWPOperator
    from furax.operators.polarizers import LinearPolarizerOperator
    from furax.operators.qu_rotations import QURotationOperator, QURotationTransposeOperator

    if id(op) in rev:
        i = rev[id(op)]
        k = defs[i]['k']
        if k in ('dense', 'diag', 'toeplitz'):
            return ['A', i]
        if k == 'rot':
            return ['rot', i, 1]
        if k in ('index', 'pack'):
            return ['P', i]
        if k in ('reshape', 'ravel'):
            return ['X', i]
        if k == 'move':
            return ['mv', i]
    if isinstance(op, IdentityOperator):
        return ['id']
    if isinstance(op, HomothetyOperator):
        return ['hom', float(op.value)]
    if isinstance(op, QURotationTransposeOperator):
        if id(op.operator) in rev:
            return ['rot', rev[id(op.operator)], -1]
        return ['rotm', (-np.asarray(op.operator.angles, dtype=float)).tolist()]
    if isinstance(op, QURotationOperator):
        return ['rotm', np.asarray(op.angles, dtype=float).tolist()]
    if isinstance(op, HWPOperator):
        return ['hwp']
    if isinstance(op, LinearPolarizerOperator):
        return ['pol']
    if isinstance(op, ReshapeTransposeOperator) and id(op.operator) in rev:
        return ['XT', rev[id(op.operator)]]
    if isinstance(op, AbstractLazyInverseOperator) and id(op.operator) in rev:
        return ['Ainv', rev[id(op.operator)]]
    if isinstance(op, TransposeOperator) and id(op.operator) in rev:
        return ['PT', rev[id(op.operator)]]
    if isinstance(op, MoveAxisOperator):
        return ['mvnew', list(op.source), list(op.destination)]
    if isinstance(op, DiagonalOperator):
        return ['covv', np.asarray(op.diagonal, dtype=float).tolist()]
    for cls, name in ((BlockRowOperator, 'brow'), (BlockDiagonalOperator, 'bdiag'), (BlockColumnOperator, 'bcol')):
        if isinstance(op, cls):
            return [name, [_inner(b, rev, defs) for b in op.block_leaves], _cname(op.blocks)]
    if isinstance(op, AdditionOperator):
        return ['sum', [_inner(o, rev, defs) for o in op.operand_leaves]]
    if isinstance(op, CompositionOperator):
        return ['seq', [x for o in op.operands for x in _inner(o, rev, defs)]]
    return ['other', type(op).__name__]


def _cname(blocks):
    if isinstance(blocks, dict):
        return 'dict'
    if isinstance(blocks, tuple):
        return 'tuple'
    if isinstance(blocks, list):
        return 'list'
    return 'bare'


def _inner(op, rev, defs):
    t = tokenize(op, rev, defs)
    if t[0] == 'seq':
        return t[1]
    return [t]


def canon_seq(toks, defs):
    """Comparable form: rotations by value (zero rotations dropped), coverage diagonals by value."""
    out = []
    for t in toks:
        k = t[0]
        if k in ('rot', 'rotm'):
            a = _angles_of(defs, t)
            if np.all(np.abs(a) < 1e-4):
                continue
            out.append(('R', tuple(np.round(np.atleast_1d(a), 4).tolist())))
        elif k == 'cov':
            r = defs[t[1]]
            axis_entry = [it for it in r['idx'] if 'a' in it][0]
            pos = r['idx'].index(axis_entry)
            has_e = any('e' in it for it in r['idx'])
            shape = St.leaves(r['in'])[0][0]
            n = shape[-1] if (has_e and pos > 0) else shape[0]
            cnt = np.bincount(np.asarray(axis_entry['a']).reshape(-1) % n, minlength=n).astype(float)
            out.append(('COV', tuple(cnt.tolist())))
        elif k == 'covv':
            out.append(('COV', tuple(np.asarray(t[1], dtype=float).reshape(-1).tolist())))
        elif k == 'seq':
            out.extend(canon_seq(t[1], defs))
        elif k in ('brow', 'bdiag', 'bcol'):
            out.append((k, tuple(tuple(c_ for c_ in canon_seq(b, defs) if c_ != ('id',)) for b in t[1]), t[2]))
        elif k == 'sum':
            out.append((k, tuple(tuple(c_ for c_ in canon_seq(b, defs) if c_ != ('id',)) for b in t[1])))
        elif k == 'hom':
            out.append(('hom', round(float(t[1]), 5)))
        else:
            out.append(tuple(_tup(t)))
    return out


def _tup(x):
    if isinstance(x, (list, tuple)):
        return tuple(_tup(y) for y in x)
    return x


# =============================================================================================


def check(case, mode):
    from furax._base import rules as frules
    from furax._base.core import CompositionOperator, HomothetyOperator, IdentityOperator

    defs = case['defs']
    toks = case['items']
    if len(toks) < 2:
        toks = toks + [['id']]
    case = dict(case, items=toks)
    recs = build_chain(case)
    b = ops.Builder(defs)
    operands = [must_not_raise('build', b.build, r) for r in recs]
    rev = {id(o): i for i, o in b.built.items()}
    chain = CompositionOperator(operands)
    in_size = St.size(case['S'])
    out_size = St.size(ops.out_of(recs[0], defs))
    watch = RuleWatch.get()
    watch.reset()
    red = must_not_raise('reduce', chain.reduce)
    fired = dict(watch.fired)
    res_ops = list(red.operands) if isinstance(red, CompositionOperator) else [red]
    if isinstance(red, IdentityOperator) and len(res_ops) == 1:
        res_ops = []
    got = [tokenize(o, rev, defs) for o in res_ops]
    want, rewrites, first_pos = model_reduce(toks, defs, out_size <= in_size)
    # ---- (c) scalars and identities
    homs = [i for i, o in enumerate(res_ops) if isinstance(o, HomothetyOperator)]
    if len(homs) > 1:
        raise Violation('several-scalars', f'{len(homs)} scalar factors remain: {_short(got)}')
    if len(res_ops) >= 2 and any(isinstance(o, IdentityOperator) for o in res_ops):
        raise Violation('identity-remains', f'identity factor in a chain of {len(res_ops)} operands: {_short(got)}')
    whoms = [t for t in want if t[0] == 'hom']
    if homs and len(res_ops) >= 2:
        pos = homs[0]
        ok_left = pos == 0
        ok_right = pos == len(res_ops) - 1
        if out_size < in_size and not ok_left:
            raise Violation('scalar-side', f'scalar at position {pos} of {len(res_ops)}; output ({out_size}) smaller than input ({in_size}): {_short(got)}')
        if out_size > in_size and not ok_right:
            raise Violation('scalar-side', f'scalar at position {pos} of {len(res_ops)}; input ({in_size}) smaller than output ({out_size}): {_short(got)}')
        if out_size == in_size and not (ok_left or ok_right):
            raise Violation('scalar-side', f'scalar in the middle at position {pos} of {len(res_ops)}: {_short(got)}')
    if whoms:
        gh = [t for t in got if t[0] == 'hom']
        if not gh:
            if abs(whoms[0][1] - 1.0) > 1e-6:
                raise Violation('scalar-lost', f'expected scalar {whoms[0][1]}: {_short(got)}')
        elif abs(gh[0][1] - whoms[0][1]) > 1e-4 * max(1.0, abs(whoms[0][1])):
            raise Violation('scalar-value', f'scalar {gh[0][1]} != product {whoms[0][1]}')
    # ---- (a) model comparison (scalars compared above: position is free when the sizes are equal)
    cg = [t for t in canon_seq(got, defs) if t[0] != 'hom']
    cw = [t for t in canon_seq(want, defs) if t[0] != 'hom']
    classes = ['pattern:' + n for n in set(case['names'])]
    if cg != cw:
        if len(cg) < len(cw) and _subsequence(cg, cw):
            classes.append('extra_simplification_by_furax')
        else:
            raise Violation('not-normal-form', f'reduce() gave {_short(cg)}; documented rules give {_short(cw)}; input {_short(toks)}')
    # ---- (b) no adjacent pair is still reducible
    for l, r in zip(res_ops[:-1], res_ops[1:]):
        for rule in frules.BINARY_RULE_REGISTRY:
            try:
                rule.check(l, r)
                rule.apply(l, r)
            except frules.NoReduction:
                continue
            raise Violation('reducible-pair-left', f'{type(rule).__name__} still applies to ({type(l).__name__}, {type(r).__name__}) in {_short(got)}')
    nontrivial = rewrites >= 2 or (rewrites == 1 and (first_pos or 0) >= 1)
    classes += ['rule:' + k for k in fired]
    if rewrites >= 3:
        classes.append('cascade>=3')
    return {'nontrivial': nontrivial, 'classes': classes}


def _subsequence(a, b):
    it = iter(b)
    return all(any(x == y for y in it) for x in a)


def _short(x):
    s = str(x)
    return s if len(s) < 500 else s[:500] + '...'
