"""C18 - results do not depend on JIT compilation or pytree round trips."""

from __future__ import annotations

import numpy as np
from hypothesis import strategies as st

from .. import exprcheck as X
from .. import gen, ops
from .. import structs as St
from ..common import Violation, must_not_raise

PROP = 'C18'
EXAMPLES = {'quick': 70, 'thorough': 1500}
BATCH = 35
RULE = (
    'Hypothesis draws an instance of every operator kind (60%: a single operator, its transpose or inverse on top) '
    'and composites from the expression generator (depth <= 2), and landscapes of every class (HealpixLandscape, '
    'FrequencyLandscape, a user-style concrete StokesLandscape subclass). Oracle for operators: four executions agree '
    'in tree structure, shapes, dtypes (exactly) and values (forward error bound, c = 4): eager op.mv(x); '
    'jax.jit(lambda x: op.mv(x))(x); unflatten(flatten(op)).mv(x) with equal declared structures; '
    'equinox.filter_jit(lambda o, x: o.mv(x))(op, x) - the last one skipped (and counted) when the recipe contains a '
    'boolean-mask array. Landscapes: the flatten/unflatten round trip preserves class, shape, pixel_shape, dtype, '
    'stokes, nside, frequencies, structure and the results of world2index / full. '
    'non-trivial = a composite, or a class with >= 1 static and >= 1 array field.'
    ' Also: the dense form (where a hand-written one takes part) is compared across the round trip and, for block operators, under jit; block containers written as dicts in any key order; selections with structured index values (ranges, almost-ranges, sorted, constant, reversed, negative).'
    ' Also: selections by runs of 64-200 consecutive indices, also wrapping past zero.'
)
ASSUMPTIONS = [
    'passing a landscape as a jit argument is not claimed by the property (executed and recorded only)',
    'values compared with a forward error bound, never bitwise (XLA may fuse and reassociate)',
]

ARRAY_AND_STATIC = {'hom', 'diag', 'bdiag', 'dense', 'index', 'pack', 'toeplitz', 'rot'}


@st.composite
def landscape_case(draw, mode):
    what = draw(st.sampled_from(['healpix', 'healpix', 'frequency', 'flat']))
    dt = draw(st.sampled_from(['float32', 'float64'])) if mode == 'x64' else 'float32'
    stokes = draw(st.sampled_from(['I', 'QU', 'IQU', 'IQUV']))
    r = {'what': what, 'dtype': dt, 'stokes': stokes, 'nside': draw(st.sampled_from([1, 2, 4, 8])),
         'seed': draw(st.integers(0, 99))}
    if what == 'frequency':
        r['freqs'] = [float(draw(st.sampled_from([30, 40, 90, 150, 220, 353]))) for _ in range(draw(st.integers(1, 4)))]
    if what == 'flat':
        r['shape'] = [draw(st.integers(1, 5)) for _ in range(draw(st.integers(1, 3)))]
    return {'landscape': r}


@st.composite
def inverse_pair_case(draw, mode):
    """Lazy inverses of one SPD operator created under configurations that differ in ONE field, all passed to
    the SAME filtering-jit function (a compilation cache keyed on incomplete static metadata would mix them up)."""
    n = draw(st.integers(2, 4))
    B = [[draw(st.sampled_from([-1.0, 0.0, 1.0, 0.5])) for _ in range(n)] for _ in range(n)]
    field = draw(st.sampled_from(['solver_options', 'solver_options', 'solver', 'solver_callback', 'solver_throw',
                                  'solver_options_arrays']))
    return {'inverse_pair': {'n': n, 'B': B, 'field': field, 'y0': [draw(st.sampled_from([1.0, -2.0, 0.5, 3.0])) for _ in range(n)],
                             'x': [draw(st.sampled_from([1.0, 2.0, -1.0, 3.0])) for _ in range(n)],
                             'order': draw(st.sampled_from([[0, 1, 0], [1, 0, 1], [0, 1], [1, 0]]))}}


_SHARED_FJ = None


def _shared_filter_jit():
    global _SHARED_FJ
    if _SHARED_FJ is None:
        import equinox as eqx

        _SHARED_FJ = eqx.filter_jit(lambda o, v: o.mv(v))
    return _SHARED_FJ


def _check_inverse_pair(r, mode):
    import jax
    import jax.numpy as jnp
    import lineax as lx

    from furax import Config
    from furax._base.dense import DenseBlockDiagonalOperator

    n = r['n']
    B = np.asarray(r['B'], dtype=float)
    M = B.T @ B + 2.0 * np.eye(n)
    A = DenseBlockDiagonalOperator(jnp.asarray(M, jnp.float32), jax.ShapeDtypeStruct((n,), jnp.float32), 'ij,j->i')
    calls = []
    base = {'solver': lx.CG(rtol=1e-12, atol=1e-12, max_steps=1), 'solver_callback': ops._quiet_cb}
    other = dict(base)
    f = r['field']
    S = jax.ShapeDtypeStruct((n,), jnp.float32)
    if f == 'solver_options':
        # preconditioners (operators) as option values
        from furax._base.diagonal import DiagonalOperator

        d = 1.0 / np.diag(M)
        base['solver_options'] = {'preconditioner': DiagonalOperator(jnp.asarray(d, jnp.float32), in_structure=S)}
        other['solver_options'] = {'preconditioner': DiagonalOperator(jnp.asarray(d * (1.5 + np.arange(n)), jnp.float32), in_structure=S)}
    elif f == 'solver_options_arrays':
        # raw arrays as option values (an initial guess), different in the two configurations
        base['solver_options'] = {'y0': jnp.asarray(r['y0'], jnp.float32)}
        other['solver_options'] = {'y0': jnp.asarray(r['y0'], jnp.float32)[::-1] + 1.0}
    elif f == 'solver':
        other['solver'] = lx.CG(rtol=1e-12, atol=1e-12, max_steps=2)
    elif f == 'solver_callback':
        other['solver_callback'] = lambda s: calls.append(1)
    else:
        other['solver_throw'] = True
    invs = []
    for cfg in (base, other):
        with Config(**cfg):
            invs.append(must_not_raise('inverse', lambda: A.I))
    x = jnp.asarray(r['x'], jnp.float32)
    import equinox as eqx

    fj = _shared_filter_jit() if f != 'solver_options_arrays' else eqx.filter_jit(lambda o, v: o.mv(v))
    expected = []
    for k, op in enumerate(invs):
        try:
            expected.append(np.asarray(op.mv(x)))
        except Exception as e:  # noqa: BLE001  (solver_throw=True with a truncated solve raises: that is the expected eager behaviour)
            expected.append(e)
    jax.effects_barrier()
    for k in r['order']:
        n0 = len(calls)
        try:
            got = np.asarray(fj(invs[k], x))
            jax.effects_barrier()
        except Exception as e:  # noqa: BLE001
            got = e
        exp = expected[k]
        if f == 'solver_options_arrays' and isinstance(got, Exception) and not isinstance(exp, Exception) \
                and 'comparable' in str(got):
            raise Violation('filter_jit/InverseOperator/array-valued-solver_options',
                            f'{type(got).__name__}: {str(got)[:160]}')
        if isinstance(exp, Exception) != isinstance(got, Exception):
            raise Violation(f'filter_jit-shared:{f}', f'operator {k}: eager {"raises" if isinstance(exp, Exception) else "returns"} but the filtering jit {"raises" if isinstance(got, Exception) else "returns"}')
        if not isinstance(exp, Exception) and not np.allclose(got, exp, rtol=1e-4, atol=1e-5):
            raise Violation(f'filter_jit-shared:{f}', f'operator {k} passed to a shared filtering jit returns {got} instead of {exp} (configurations differ in {f})')
        if f == 'solver_callback' and not isinstance(got, Exception):
            if (len(calls) > n0) != (k == 1):
                raise Violation(f'filter_jit-shared:{f}', f'operator {k}: wrong callback invoked under the shared filtering jit')
    return {'nontrivial': True, 'classes': ['inverse_pair:' + f]}


@st.composite
def toeplitz_case(draw, mode):
    G = gen.GenCtx(mode, cap=24)
    n = draw(st.integers(2, 12))
    S = St.leaf([n] if draw(st.booleans()) else [draw(st.integers(1, 2)), n], draw(st.sampled_from(gen.dtypes(mode))))
    r = gen.g_toeplitz(draw, G, S)
    r['method'] = draw(st.sampled_from([None, None, 'overlap_save', 'fft', 'direct', 'dense']))
    if r['method'] not in (None, 'overlap_save') or draw(st.booleans()):
        r['fft_size'] = None
    return {'defs': [], 'expr': r, 'probe': draw(st.lists(st.integers(0, 1000), min_size=8, max_size=8))}


@st.composite
def block_container_case(draw, mode):
    """Block operators whose container is a dict written in any key order (JAX flattens dicts in sorted key order, so
    a round trip re-creates the container in another order than the one the user wrote), a list or a tuple."""
    G = gen.GenCtx(mode, cap=12)
    child = St.leaf([draw(st.integers(1, 3))], draw(st.sampled_from(gen.dtypes(mode))))
    k = draw(st.integers(2, 3))
    blocks = [gen.leaf_operand(draw, G, child, square=True, kind=draw(st.sampled_from(['diag', 'hom', 'dense', 'diag'])))
              for _ in range(k)]
    cont = draw(st.sampled_from(['dict', 'dict', 'dict', 'list', 'tuple']))
    if cont == 'dict':
        keys = list(draw(st.permutations(['a', 'b', 'c'])))[:k]
        container = {'c': 'dict', 'items': [[key, b] for key, b in zip(keys, blocks)]}
    else:
        container = {'c': cont, 'items': blocks}
    expr = {'k': 'block', 'kind': draw(st.sampled_from(['diag', 'diag', 'row', 'col'])), 'blocks': container}
    return {'defs': G.defs, 'expr': expr, 'probe': draw(st.lists(st.integers(0, 1000), min_size=8, max_size=8))}


@st.composite
def index_values_case(draw, mode):
    """Selections whose index VALUES have a shape a value-dependent shortcut could look for (contiguous ranges, almost
    ranges, sorted, constant, reversed): values are concrete in eager mode and under a closure, traced when the operator is
    an argument of a filtering jit."""
    n = draw(st.integers(3, 7))
    if draw(st.integers(0, 2)) == 0:
        n = draw(st.sampled_from([70, 100, 130, 200]))  # long axes: runs of 64 and more consecutive indices
    shape = [n] if draw(st.booleans()) else ([n, draw(st.integers(1, 2))] if draw(st.booleans()) else [draw(st.integers(1, 2)), n])
    last = shape[-1] == n and len(shape) == 2 and shape[0] != n
    S = St.leaf(shape, draw(st.sampled_from(gen.dtypes(mode))))
    if draw(st.integers(0, 3)) == 0:
        S = St.stokes(draw(st.sampled_from(['QU', 'IQU'])), shape, S['dtype'])
    cnt = draw(st.integers(1, n))
    a0 = draw(st.integers(0, n - cnt))
    vals = list(range(a0, a0 + cnt))
    pat = draw(st.sampled_from(['range', 'near_range', 'near_range', 'sorted', 'constant', 'reversed', 'negative_range', 'wrap_range']))
    if n >= 64:
        pat = draw(st.sampled_from(['wrap_range', 'wrap_range', 'range', 'negative_range']))
        cnt = draw(st.integers(64, n))
        a0 = draw(st.integers(0, n - cnt))
        vals = list(range(a0, a0 + cnt))
    if pat == 'near_range' and cnt >= 3:
        j0 = draw(st.integers(1, cnt - 2))
        vals[j0] = vals[j0 + draw(st.sampled_from([-1, 1]))]
    elif pat == 'sorted':
        vals = sorted(draw(st.lists(st.integers(0, n - 1), min_size=cnt, max_size=cnt)))
    elif pat == 'constant':
        vals = [a0] * cnt
    elif pat == 'reversed':
        vals = vals[::-1]
    elif pat == 'negative_range':
        vals = [v - n for v in vals]
    elif pat == 'wrap_range' and cnt >= 2:
        # a run that starts at a negative index and runs past zero: -k, ..., -1, 0, 1, ...
        k_ = draw(st.integers(1, cnt - 1))
        vals = list(range(-k_, cnt - k_))
    idx = [{'e': 1}, {'a': vals}] if last else [{'a': vals}]
    r = {'k': 'index', 'in': S, 'idx': idx, 'explicit_out': draw(st.booleans()), 'unique': None, 'bare': draw(st.booleans())}
    return {'defs': [], 'expr': r, 'probe': draw(st.lists(st.integers(0, 1000), min_size=8, max_size=8))}


def strategy(tier, mode):
    from .c08 import single_case

    return st.one_of(single_case(mode), single_case(mode), single_case(mode),
                     gen.expression_case(mode, cap=16, max_len=4, depth=2),
                     gen.expression_case(mode, cap=16, max_len=4, depth=2),
                     landscape_case(mode), inverse_pair_case(mode), toeplitz_case(mode), block_container_case(mode), index_values_case(mode))


def _has_mask(r, defs):
    k = r['k']
    if k == 'ref':
        return _has_mask(defs[r['i']], defs)
    if k == 'pack':
        return True
    if k == 'index':
        return any('m' in it for it in r['idx'])
    if k in ('compose', 'add', 'sub'):
        return any(_has_mask(o, defs) for o in r['ops'])
    if k in ('scale', 'neg', 'pos', 'reduced', 'T', 'TG', 'I'):
        return _has_mask(r['op'], defs)
    if k == 'block':
        return any(_has_mask(b, defs) for b in ops._block_leaves(r['blocks']))
    return False


def _same(y_ref, y, den, x, eps, key):
    import jax

    l0, t0 = jax.tree.flatten(y_ref)
    l1, t1 = jax.tree.flatten(y)
    if t0 != t1 or len(l0) != len(l1):
        raise Violation(key + ':tree', f'{t1} instead of {t0}')
    for a, b in zip(l0, l1):
        if tuple(a.shape) != tuple(b.shape) or np.dtype(a.dtype) != np.dtype(b.dtype):
            raise Violation(key + ':leaf-type', f'{tuple(b.shape)}:{b.dtype} instead of {tuple(a.shape)}:{a.dtype}')
    f0, f1 = St.flat_of_value(y_ref), St.flat_of_value(y)
    tol = 4 * ops.tolerance(den, np.abs(x), eps)
    d = np.abs(f0 - f1)
    if (d > tol).any() or not np.all(np.isfinite(f1)):
        i = int(np.argmax(d - tol))
        raise Violation(key + ':value', f'element {i}: {f1[i]!r} instead of {f0[i]!r} (tol {tol[i]:.3g})')


def _check_landscape(r, mode):
    import jax
    import jax.numpy as jnp

    from furax.landscapes import FrequencyLandscape, HealpixLandscape

    dt = np.float32 if r['dtype'] == 'float32' else np.float64
    if r['what'] == 'healpix':
        land = HealpixLandscape(r['nside'], r['stokes'], dt)
    elif r['what'] == 'frequency':
        land = FrequencyLandscape(r['nside'], jnp.asarray(r['freqs']), r['stokes'], dt)
    else:
        from .c17 import _flat_cls

        land = _flat_cls()(tuple(r['shape']), r['stokes'], dt)
    leaves, treedef = must_not_raise('landscape-flatten', jax.tree.flatten, land)
    back = must_not_raise('landscape-unflatten', jax.tree.unflatten, treedef, leaves)
    if type(back) is not type(land):
        raise Violation('landscape-class', f'{type(back).__name__} instead of {type(land).__name__}')
    for attr in ('shape', 'pixel_shape', 'stokes', 'nside', 'size'):
        if hasattr(land, attr) and getattr(back, attr, None) != getattr(land, attr):
            raise Violation('landscape-attr:' + attr, f'{getattr(back, attr, None)!r} instead of {getattr(land, attr)!r}')
    if np.dtype(back.dtype) != np.dtype(land.dtype):
        raise Violation('landscape-attr:dtype', f'{back.dtype} instead of {land.dtype}')
    if len(back) != len(land):
        raise Violation('landscape-attr:len', f'{len(back)} instead of {len(land)}')
    if r['what'] == 'frequency' and not np.array_equal(np.asarray(back.frequencies), np.asarray(land.frequencies)):
        raise Violation('landscape-attr:frequencies', 'frequencies differ after the round trip')
    s0, s1 = land.structure, back.structure
    if jax.tree.structure(s0) != jax.tree.structure(s1) or any(
            a.shape != b.shape or a.dtype != b.dtype for a, b in zip(jax.tree.leaves(s0), jax.tree.leaves(s1))):
        raise Violation('landscape-structure', 'structure differs after the round trip')
    f0, f1 = land.full(r['seed']), back.full(r['seed'])
    if any(not np.array_equal(np.asarray(a), np.asarray(b)) or a.dtype != b.dtype for a, b in zip(jax.tree.leaves(f0), jax.tree.leaves(f1))):
        raise Violation('landscape-full', 'full() differs after the round trip')
    rng = np.random.default_rng(r['seed'])
    if r['what'] != 'flat':
        th, ph = jnp.asarray(rng.uniform(0.1, 3.0, 16), dtype=dt), jnp.asarray(rng.uniform(0.1, 6.0, 16), dtype=dt)
        if not np.array_equal(np.asarray(land.world2index(th, ph)), np.asarray(back.world2index(th, ph))):
            raise Violation('landscape-world2index', 'world2index differs after the round trip')
    else:
        cs = [jnp.asarray(rng.uniform(-1, n, 8), dtype=dt) for n in land.pixel_shape]
        if not np.array_equal(np.asarray(land.pixel2index(*cs)), np.asarray(back.pixel2index(*cs))):
            raise Violation('landscape-pixel2index', 'pixel2index differs after the round trip')
    classes = ['landscape:' + r['what']]
    # not claimed by the property: a landscape as a jit argument (recorded only)
    try:
        jax.jit(lambda l: l.full(1.0))(land)
        classes.append('landscape_as_jit_argument_ok')
    except Exception:  # noqa: BLE001
        classes.append('landscape_as_jit_argument_fails')
    return {'nontrivial': True, 'classes': classes}


def check(case, mode):
    import equinox as eqx
    import jax

    if 'landscape' in case:
        return _check_landscape(case['landscape'], mode)
    if 'inverse_pair' in case:
        return _check_inverse_pair(case['inverse_pair'], mode)
    defs = case.get('defs', [])
    den = ops.denote_case(case)
    op = must_not_raise('build', ops.build_case, case)
    n = den.M.shape[1]
    eps = X.eps_of(den)
    p = case['probe']
    xf = np.array([((p[i % 8] * 3 + 5 * i) % 9) - 4 for i in range(n)], dtype=float)
    x = St.value_from_flat(den.in_S, xf)
    y0 = must_not_raise('eager-mv', op.mv, x)
    # closure jit
    y1 = must_not_raise('jit-closure', lambda: jax.jit(lambda v: op.mv(v))(x))
    _same(y0, y1, den, xf, eps, 'jit-closure')
    # pytree round trip
    leaves, treedef = must_not_raise('flatten', jax.tree.flatten, op)
    op2 = must_not_raise('unflatten', jax.tree.unflatten, treedef, leaves)
    if type(op2) is not type(op):
        raise Violation('roundtrip-class', f'{type(op2).__name__} instead of {type(op).__name__}')
    X.same_declared(op, op2, 'roundtrip-structure')
    y2 = must_not_raise('roundtrip-mv', op2.mv, x)
    _same(y0, y2, den, xf, eps, 'roundtrip')
    classes = []
    # the dense form, where the operator has one: same matrix before and after the round trip and under jit
    kinds0 = X.kinds_in(case['expr'], defs)
    # (only where a hand-written dense form takes part; the generic one is the action itself applied to a basis)
    if n <= 24 and any(k_ in kinds0 for k_ in ('block', 'diag', 'bdiag', 'toeplitz', 'move', 'hom')):
        try:
            m0 = np.asarray(op.as_matrix())
        except Exception:  # noqa: BLE001  (no dense form for this operator: nothing to compare)
            m0 = None
        if m0 is not None:
            m2 = np.asarray(must_not_raise('roundtrip-as_matrix', op2.as_matrix))
            pairs_ = [('roundtrip-as_matrix', m2)]
            if case['expr']['k'] == 'block' and p[1] % 2 == 0:
                pairs_.append(('jit-as_matrix', np.asarray(must_not_raise('jit-as_matrix', lambda: jax.jit(lambda: op.as_matrix())()))))
            scale = max(1.0, float(np.abs(m0).max(initial=0)))
            for key_, m_ in pairs_:
                if m_.shape != m0.shape or m_.dtype != m0.dtype:
                    raise Violation(key_ + ':type', f'{m_.shape}:{m_.dtype} instead of {m0.shape}:{m0.dtype}')
                if not np.allclose(m_, m0, rtol=0, atol=64 * eps * scale * max(1, n), equal_nan=True):
                    raise Violation(key_ + ':value', f'as_matrix() differs: max abs difference {np.nanmax(np.abs(m_ - m0)):.3g}')
            classes.append('as_matrix_compared')
    if _has_mask(case['expr'], defs):
        classes.append('filter_jit_skipped_boolean_mask')
    else:
        y3 = must_not_raise('filter_jit', lambda: eqx.filter_jit(lambda o, v: o.mv(v))(op, x))
        _same(y0, y3, den, xf, eps, 'filter_jit')
        classes.append('filter_jit')
    kinds = X.kinds_in(case['expr'], defs)
    classes += ['kind:' + k for k in kinds]
    composite = any(k in kinds for k in ('compose', 'add', 'sub', 'block', 'T', 'TG', 'I', 'scale', 'neg'))
    return {'nontrivial': composite or any(k in ARRAY_AND_STATIC for k in kinds), 'classes': classes}
