"""C06 - inverses invert."""

from __future__ import annotations

import math

import numpy as np
from hypothesis import strategies as st

from .. import exprcheck as X
from .. import gen, ops
from .. import structs as St
from ..common import Skip, Violation, must_not_raise, must_raise

PROP = 'C06'
EXAMPLES = {'quick': 50, 'thorough': 2000}
RULE = (
    '(a) closed forms: non-zero scalars (negative, fractional), diagonal operators over every axis form with and '
    'without zero entries, block-diagonal operators of invertible blocks in nested containers, QU rotations, identity, '
    'move-axis: A.I(A(x)) == x == A(A.I(x)) within the forward error bound, the dense form of A.I equals the numpy '
    'inverse (Moore-Penrose pseudo-inverse for diagonals with zeros: no NaN/Inf, also for inputs of magnitude 1e30), '
    'A.I.I denotes A. (b) SPD operators without closed form (dense B^T B + cI, diagonally dominant Toeplitz, SPD sums '
    'and compositions) with condition number <= 1e2 (float32) / 1e3 (float64) and solver settings drawn through '
    '`with Config(solver=lx.CG(rtol, atol, max_steps))`: ||A A.I(y) - y|| <= 10 (atol + rtol ||y||) + rounding, '
    '||A.I(y) - A^-1 y|| <= 10 rtol kappa ||A^-1 y|| + atol-term, and A.I.as_matrix() == numpy inverse. (c) non-square '
    'operators of every kind: .I raises ValueError. non-trivial = a diagonal with >= 1 zero, a nested block container, '
    'kappa >= 10, or a non-default solver.'
    ' Also: for a third of the SPD cases the same operator object is first inverted under a configuration that cannot solve (1 CG step, no error raised); the inverse under test must use its own configuration.'
    ' Also (big_spd): a dense SPD operator with 257-320 unknowns: dense form of the lazy inverse == numpy inverse, one solve to the configured tolerance.'
)
ASSUMPTIONS = [
    'CG bound calibrated at design time on 294 random SPD systems (largest observed ratios 0.43 and 0.27)',
    'lazy inverses only on uniform-dtype structures (lineax rejects mixed-dtype pytrees)',
    'HWPOperator.I is not generated: it is symmetric but indefinite and has no closed form in the library',
    'float32 data: the solver tolerance is never tighter than 1e-5 (the library default of 1e-6 is at round-off level there and is replaced by an explicit CG(1e-5, 1e-5, 200))',
]


@st.composite
def closed_case(draw, mode):
    G = gen.GenCtx(mode, cap=20, allow_cg=False)
    S = draw(gen.structure(mode, cap=16))
    shapes = [sh for sh, _ in St.leaves(S)]
    forms = ['hom', 'id']
    if all(len(s) >= 1 for s in shapes):
        forms += ['diag', 'diag', 'diag0', 'diag0', 'diag_tiny']
    if S['t'] == 'stokes':
        forms += ['rot', 'rot', 'rotT']
    if S['t'] in ('tuple', 'list', 'dict'):
        forms += ['blockdiag'] * 3
    if all(len(s) >= 2 for s in shapes):
        forms += ['move', 'move']
    f = draw(st.sampled_from(forms))
    if f == 'id':
        r = {'k': 'id', 'in': S}
    elif f == 'hom':
        r = {'k': 'hom', 'in': S, 'value': draw(st.sampled_from([-3, -2, -0.5, 0.25, 1.5, 4, -1, 0.125])),
             'ty': draw(st.sampled_from(['py_float', 'jax_0d', 'jax_0d_weak']))}
    elif f in ('diag', 'diag0'):
        r = gen.g_diag(draw, G, S, zeros=(f == 'diag0'))
        if f == 'diag0':
            v = np.asarray(r['vals'], dtype=float)
            if v.size and not (v == 0).any():
                v.reshape(-1)[draw(st.integers(0, v.size - 1))] = 0.0
            r['vals'] = v.tolist()
    elif f == 'diag_tiny':
        # non-zero entries of very small / very large magnitude (they are NOT zeros: the pseudo-inverse inverts them)
        r = gen.g_diag(draw, G, S, zeros=False)
        v = np.asarray(r['vals'], dtype=float)
        scales = [draw(st.sampled_from([1e-10, 1e-8, 1e-6, 1e6, 1e8, 1.0])) for _ in range(v.size)]
        r['vals'] = (v.reshape(-1) * np.asarray(scales)).reshape(v.shape).tolist()
        if draw(st.booleans()) and v.size > 1:
            vv = np.asarray(r['vals'], dtype=float)
            vv.reshape(-1)[0] = 0.0
            r['vals'] = vv.tolist()
    elif f == 'rot':
        r = gen.g_rot(draw, G, S)
    elif f == 'rotT':
        r = {'k': 'T', 'op': gen.g_rot(draw, G, S)}
    elif f == 'move':
        r = gen.g_move(draw, G, S)
    else:
        r, _ = gen.invertible(draw, G, S, closed_only=True)
        if r['k'] != 'block':
            r = {'k': 'block', 'kind': 'diag', 'blocks': gen._container_like(S, [gen.invertible(draw, G, c, closed_only=True)[0] for c in gen._children_in_order(S)])}
    return {'form': 'closed', 'defs': G.defs, 'expr': r, 'sub': f, 'huge': draw(st.booleans()),
            'probe': draw(st.lists(st.integers(0, 1000), min_size=8, max_size=8))}


@st.composite
def spd_case(draw, mode):
    G = gen.GenCtx(mode, cap=14)
    dt = draw(st.sampled_from(gen.dtypes(mode)))
    f = draw(st.sampled_from(['dense', 'dense', 'toeplitz', 'btb', 'sum', 'blockdiag']))
    n = draw(st.integers(2, 10))
    S = St.leaf([n], dt)
    if f == 'dense':
        r = gen.g_dense(draw, G, S, square=True, spd=True)
    elif f == 'toeplitz':
        S = St.leaf([draw(st.integers(1, 2)), n] if draw(st.booleans()) else [n], dt)
        r = gen.g_toeplitz(draw, G, S, spd=True)
    elif f == 'btb':
        B = G.define(gen.g_dense(draw, G, S, square=True))
        c = draw(st.sampled_from([1.0, 2.0, 4.0]))
        r = {'k': 'add', 'ops': [{'k': 'compose', 'ops': [{'k': 'T', 'op': B}, B], 'via': 'list', 'tree': None},
                                 {'k': 'hom', 'in': S, 'value': c, 'ty': 'py_float'}], 'via': 'list', 'tree': None}
    elif f == 'sum':
        r = {'k': 'add', 'ops': [gen.g_dense(draw, G, S, square=True, spd=True), gen.g_toeplitz(draw, G, S, spd=True)],
             'via': 'plus', 'tree': [0, 1]}
    else:
        S2 = {'t': draw(st.sampled_from(['tuple', 'list'])), 'items': [S, St.leaf([draw(st.integers(2, 5))], dt)]}
        r = {'k': 'block', 'kind': 'diag', 'blocks': gen._container_like(S2, [
            gen.g_dense(draw, G, c, square=True, spd=True) for c in S2['items']])}
        S = S2
    rt_pool = [1e-3, 1e-4, 1e-5] + ([1e-6, 1e-8] if dt == 'float64' else [])
    default_solver = draw(st.integers(0, 3)) == 0
    solver = None if default_solver else {'rtol': draw(st.sampled_from(rt_pool)),
                                          'atol': draw(st.sampled_from([1e-6, 1e-8, 1e-4])),
                                          'max_steps': draw(st.sampled_from([200, 500, 1000]))}
    return {'form': 'spd', 'defs': G.defs, 'expr': r, 'sub': f, 'solver': solver,
            'probe': draw(st.lists(st.integers(0, 1000), min_size=8, max_size=8))}


@st.composite
def nonsquare_case(draw, mode):
    G = gen.GenCtx(mode, cap=16, allow_cg=False)
    S = draw(gen.structure(mode, cap=12))
    for _ in range(6):
        r = gen.operand(draw, G, S, 1)
        if not St.equal(G.out_of(r), S):
            break
    return {'form': 'nonsquare', 'defs': G.defs, 'expr': r, 'probe': [0] * 8}


@st.composite
def scaled_spd_case(draw, mode):
    """k * A, A * k, A / k for an SPD operator A without closed form, then the lazy inverse."""
    n = draw(st.integers(2, 6))
    dt = draw(st.sampled_from(gen.dtypes(mode)))
    G = gen.GenCtx(mode, cap=12)
    S = St.leaf([n], dt)
    A = gen.g_dense(draw, G, S, square=True, spd=True)
    A['vdtype'] = 'float32'
    form = draw(st.sampled_from(['k*A', 'A*k', 'A/k']))
    ty = draw(st.sampled_from(['py_float', 'py_int', 'np_f32', 'jax_0d', 'jax_0d_weak']))
    v = draw(st.sampled_from([2.0, 0.5, 3.0, 4.0]))
    if ty == 'py_int':
        v = int(v) or 2
    r = {'k': 'scale', 'op': A, 'value': v, 'ty': ty, 'form': form}
    return {'form': 'spd', 'defs': G.defs, 'expr': r, 'sub': 'scaled', 'solver': None,
            'probe': draw(st.lists(st.integers(0, 1000), min_size=8, max_size=8))}


@st.composite
def big_spd_case(draw, mode):
    """A well-conditioned dense SPD operator with a few hundred unknowns (beyond any size threshold of a dense fast path):
    the dense form of the lazy inverse and one solve. Values derive from the seed."""
    return {'form': 'big_spd', 'n': draw(st.sampled_from([257, 300, 320])), 'seed': draw(st.integers(0, 10 ** 6)),
            'dtype': draw(st.sampled_from(gen.dtypes(mode)))}


def strategy(tier, mode):
    big = big_spd_case(mode)
    rest = st.one_of(closed_case(mode), closed_case(mode), spd_case(mode), spd_case(mode), nonsquare_case(mode),
                     scaled_spd_case(mode))
    return st.integers(0, 24).flatmap(lambda i: big if i == 0 else rest)


def _check_big_spd(r, mode):
    import jax
    import jax.numpy as jnp
    import lineax as lx

    from furax import Config
    from furax._base.dense import DenseBlockDiagonalOperator

    n, dt = r['n'], r['dtype']
    rng = np.random.default_rng(r['seed'])
    B = rng.normal(size=(n, n)) / math.sqrt(n)
    A = np.asarray(np.asarray(B.T @ B + np.eye(n), dtype=dt), dtype=np.float64)
    A = (A + A.T) / 2
    eps = float(np.finfo(np.dtype(dt)).eps)
    op = DenseBlockDiagonalOperator(jnp.asarray(A, dtype=dt), jax.ShapeDtypeStruct((n,), jnp.dtype(dt)), 'ij,j->i')
    rtol = 1e-5 if dt == 'float32' else 1e-9
    with Config(solver=lx.CG(rtol=rtol, atol=rtol, max_steps=400), solver_callback=ops._quiet_cb):
        inv = must_not_raise('inverse', lambda: op.I)
    Minv = np.linalg.inv(A)
    kappa = float(np.linalg.cond(A))
    Mi = np.asarray(must_not_raise('I-as_matrix', inv.as_matrix), dtype=np.float64)
    tolm = 50 * eps * kappa * n * np.abs(Minv).max() + 1e-30
    if Mi.shape != Minv.shape or np.abs(Mi - Minv).max() > tolm:
        raise Violation('I-as_matrix', f'as_matrix() of the inverse of a {n}x{n} SPD operator differs from the matrix inverse by '
                                       f'{np.abs(Mi - Minv).max():.3g} (tol {tolm:.3g}, kappa {kappa:.3g})')
    y = rng.integers(-3, 4, n).astype(np.float64)
    z = np.asarray(must_not_raise('I-mv', inv.mv, jnp.asarray(y, dtype=dt)), dtype=np.float64)
    ny = float(np.linalg.norm(y))
    res = float(np.linalg.norm(A @ z - y))
    bound = 10 * (rtol + rtol * ny) + 200 * eps * kappa * ny * math.sqrt(n)
    if not np.all(np.isfinite(z)) or res > bound:
        raise Violation('cg-residual', f'||A z - y|| = {res:.3g} > {bound:.3g} for a {n}x{n} SPD operator (kappa {kappa:.3g})')
    return {'nontrivial': True, 'classes': ['big_spd', f'n:{n}']}


def _contains_move(r, defs):
    return 'move' in X.kinds_in(r, defs)


def check(recipe, mode):
    import lineax as lx

    from furax import Config

    if recipe['form'] == 'big_spd':
        return _check_big_spd(recipe, mode)
    defs = recipe.get('defs', [])
    case = {'defs': defs, 'expr': recipe['expr']}
    den = ops.denote_case(case)
    p = recipe['probe']
    if recipe['form'] == 'nonsquare':
        if St.equal(den.in_S, den.out_S):
            raise Skip()
        kinds = X.kinds_in(recipe['expr'], defs)
        b = ops.Builder(defs)
        op = must_not_raise('build', b.build, recipe['expr'])
        top = recipe['expr']['k']
        if top == 'move' or top in ('T', 'I', 'neg', 'pos', 'scale', 'ref', 'compose', 'reduced'):
            # move-axis has a closed-form inverse although it is "non-square"; wrappers are judged elsewhere
            raise Skip()
        must_raise('nonsquare-inverse', lambda: op.I, exc=(ValueError,))
        return {'nontrivial': False, 'classes': ['nonsquare:' + top]}

    b = ops.Builder(defs)
    A = must_not_raise('build', b.build, recipe['expr'])
    n = den.M.shape[0]
    eps = X.eps_of(den)
    classes = [recipe['form'] + ':' + recipe['sub']]
    if recipe['form'] == 'closed':
        with ops.quiet_config():
            inv = must_not_raise('inverse', lambda: A.I)
        denI = ops.denote({'k': 'I', 'op': recipe['expr']}, defs, {})
        X.check_structures(inv, denI, 'I-structure')
        X.compare_with_den(inv, denI, p, 'I-value')
        M = np.asarray(must_not_raise('I-as_matrix', inv.as_matrix), dtype=float)
        from .c04 import _cmp_matrix

        _cmp_matrix(M, denI, eps, 'I-as_matrix')
        # round trips
        prod = ops.Den(denI.M @ den.M, denI.A @ den.A, den.in_S, den.in_S, den.flags | denI.flags, den.nf + denI.nf)
        for x in ops.probes(n, p, max_basis=8):
            ax, raw = must_not_raise('mv', ops.apply_flat, A, den.in_S, x)
            back, _ = must_not_raise('I-mv', lambda v: (St.flat_of_value(inv.mv(v)), None), raw)
            want = prod.M @ x
            tol = ops.tolerance(prod, np.abs(x), eps)
            if (np.abs(back - want) > tol).any() or not np.all(np.isfinite(back)):
                raise Violation('roundtrip-AinvA', f'A.I(A(x)) = {back[:8]} but expected {want[:8]}')
            ix, raw2 = must_not_raise('I-mv', ops.apply_flat, inv, den.out_S, x)
            fwd = St.flat_of_value(must_not_raise('mv', A.mv, raw2))
            want2 = (den.M @ denI.M) @ x
            tol2 = ops.tolerance(ops.Den(den.M @ denI.M, den.A @ denI.A, den.in_S, den.in_S, prod.flags, prod.nf), np.abs(x), eps)
            if (np.abs(fwd - want2) > tol2).any() or not np.all(np.isfinite(fwd)):
                raise Violation('roundtrip-AAinv', f'A(A.I(x)) = {fwd[:8]} but expected {want2[:8]}')
        # A.I.I denotes A
        with ops.quiet_config():
            ii = must_not_raise('inverse-twice', lambda: inv.I)
        zero_diag = recipe['sub'] == 'diag0' or (recipe['sub'] == 'diag_tiny' and _has_zero_diag(recipe['expr'], defs))
        if not zero_diag and not (recipe['sub'] == 'blockdiag' and _has_zero_diag(recipe['expr'], defs)):
            X.compare_with_den(ii, den, p, 'II-value', max_basis=8)
        # pseudo-inverse stays finite on huge inputs
        if recipe['sub'] == 'diag0' and recipe.get('huge'):  # (not for diag_tiny: 1e10 * 1e30 overflows float32 legitimately)
            big = np.where(np.arange(n) % 2 == 0, 1e30, -1e30)
            out, _ = must_not_raise('I-mv-huge', ops.apply_flat, inv, den.out_S, big)
            if not np.all(np.isfinite(out)):
                raise Violation('pseudo-inverse-not-finite', 'NaN/Inf in A.I(x) for |x| = 1e30')
            classes.append('huge_input')
        nontrivial = zero_diag or (recipe['sub'] == 'blockdiag' and ops.container_depth(recipe['expr']['blocks']) >= 2)
        if recipe['sub'] == 'blockdiag':
            classes.append(f'depth:{ops.container_depth(recipe["expr"]["blocks"])}')
        return {'nontrivial': bool(nontrivial), 'classes': classes}

    # ---- SPD without closed form
    M = den.M
    if not np.allclose(M, M.T) or np.linalg.eigvalsh((M + M.T) / 2).min() <= 0:
        raise Skip()
    kappa = float(np.linalg.cond(M))
    f32 = eps > 1e-10
    if kappa > (1e2 if f32 else 1e3):
        raise Skip()
    sv = recipe['solver']
    if sv is None and f32:
        # the library default (rtol = atol = 1e-6, 500 steps) is at the float32 round-off level: CG stagnates and may
        # even diverge there; outside the calibrated domain (rtol >= 1e-5 in float32), so a reachable tolerance is configured
        sv = {'rtol': 1e-5, 'atol': 1e-5, 'max_steps': 200}
    cfg = {'solver_callback': ops._quiet_cb}
    rtol, atol = 1e-6, 1e-6
    if sv is not None:
        rtol, atol = sv['rtol'], sv['atol']
        if f32:
            # lineax' CG stops on an ELEMENT-WISE criterion |dz_i| < atol + rtol |z_i|: in float32 a tolerance below the
            # round-off noise (~1e-7 kappa) on a solution component near zero is never met and the iteration then runs
            # to max_steps, where it can diverge; the calibrated float32 domain is rtol, atol >= 1e-5
            rtol, atol = max(rtol, 1e-5), max(atol, 1e-5)
        cfg['solver'] = lx.CG(rtol=rtol, atol=atol, max_steps=sv['max_steps'])
    elif f32:
        # the library default (rtol=atol=1e-6) is at the float32 round-off level: judge with the achievable bound
        pass
    if p[1] % 3 == 0:
        # the same operator object was inverted before, under a configuration that cannot solve anything (one CG step,
        # no error raised): the inverse created below still uses ITS configuration
        with Config(solver=lx.CG(rtol=0.5, atol=0.5, max_steps=1), solver_throw=False, solver_callback=ops._quiet_cb):
            must_not_raise('earlier-inverse', lambda: A.I)
        classes.append('inverted_before_under_another_config')
    if sv is not None and p[0] % 2 == 0:
        # nested blocks: the outer one sets the solver, the inner one only silences the callback (inherits the solver)
        with Config(solver=cfg['solver']):
            with Config(solver_callback=ops._quiet_cb):
                inv = must_not_raise('inverse', lambda: A.I)
        classes.append('nested_config')
    else:
        with Config(**cfg):
            inv = must_not_raise('inverse', lambda: A.I)
    if not St.same_structure(den.out_S, inv.in_structure()) or not St.same_structure(den.in_S, inv.out_structure()):
        raise Violation('I-structure', 'structures of the lazy inverse are not the swapped ones')
    Minv = np.linalg.inv(M)
    weak64 = (mode == 'x64' and recipe['sub'] == 'scaled' and any(dt_ == 'float32' for _, dt_ in St.leaves(den.in_S))
              and _has_weak64_scalar(inv.operator))
    for t in range(2):
        y = np.array([((p[(i + t) % 8] * (t + 2) + 3 * i) % 11) - 5 for i in range(n)], dtype=float)
        if not y.any():
            y[0] = 1.0
        try:
            z, _ = must_not_raise('I-mv', ops.apply_flat, inv, den.out_S, y)
        except Violation as v:
            if weak64 and 'structures do not match' in v.detail:
                raise Violation('lazy-inverse/x64/weak-float64-scalar-factor-on-float32', v.detail)
            raise
        if not np.all(np.isfinite(z)):
            raise Violation('cg-not-finite', 'NaN/Inf in A.I(y)')
        ny = float(np.linalg.norm(y))
        res = float(np.linalg.norm(M @ z - y))
        slack = 200 * eps * kappa * ny
        bound = 10 * (atol + rtol * ny) + slack
        if res > bound:
            raise Violation('cg-residual', f'||A z - y|| = {res:.3g} > {bound:.3g} (rtol {rtol}, atol {atol}, kappa {kappa:.3g}, n {n})')
        zt = Minv @ y
        err = float(np.linalg.norm(z - zt))
        bound2 = 10 * (rtol * kappa * float(np.linalg.norm(zt)) + atol * float(np.linalg.norm(Minv, 2))) + 200 * eps * kappa * float(np.linalg.norm(zt))
        if err > bound2:
            raise Violation('cg-solution', f'||A.I(y) - A^-1 y|| = {err:.3g} > {bound2:.3g} (rtol {rtol}, kappa {kappa:.3g})')
    Mi = np.asarray(must_not_raise('I-as_matrix', inv.as_matrix), dtype=float)
    tolm = 50 * eps * kappa * np.abs(Minv).max() + 1e-30
    if Mi.shape != Minv.shape or np.abs(Mi - Minv).max() > tolm:
        raise Violation('I-as_matrix', f'as_matrix() of the inverse differs from the matrix inverse by {np.abs(Mi - Minv).max():.3g} (tol {tolm:.3g})')
    if inv.I is not A and not _same_value(inv.I, A, den, p):
        raise Violation('II-value', 'A.I.I does not denote A')
    if kappa >= 10:
        classes.append('kappa>=10')
    classes.append('default_solver' if sv is None else 'custom_solver')
    return {'nontrivial': kappa >= 10 or sv is not None, 'classes': classes}


def _same_value(op, A, den, p):
    try:
        X.compare_ops(op, A, den, p, 'II', max_basis=6)
    except Violation:
        return False
    return True


def _has_zero_diag(r, defs):
    k = r['k']
    if k == 'ref':
        return _has_zero_diag(defs[r['i']], defs)
    if k == 'diag':
        return bool((np.asarray(r['vals'], dtype=float) == 0).any())
    if k == 'block':
        return any(_has_zero_diag(b, defs) for b in ops._block_leaves(r['blocks']))
    return False


def _has_weak64_scalar(op) -> bool:
    """Does the operand of a lazy inverse contain a scalar factor stored as a weakly typed float64 array?"""
    import jax

    from furax._base.core import AbstractLinearOperator, HomothetyOperator

    if isinstance(op, HomothetyOperator):
        v = op.value
        return isinstance(v, jax.Array) and str(v.dtype) == 'float64' and bool(getattr(v, 'weak_type', False))
    for name in ('operands', 'blocks', 'operator'):
        sub = getattr(op, name, None)
        if sub is None:
            continue
        for o in jax.tree.leaves(sub, is_leaf=lambda z: isinstance(z, AbstractLinearOperator)):
            if isinstance(o, AbstractLinearOperator) and _has_weak64_scalar(o):
                return True
    return False
