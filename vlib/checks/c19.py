"""C19 - solver configuration is scoped, restored and captured correctly.

A Hypothesis RuleBasedStateMachine owns 1-3 long-lived worker threads. Every rule hands ONE event to one
thread and waits until the thread has executed it, so the generated rule sequence is the history and the
schedule at once (replayable, shrinks as a whole). Each worker is a recursive interpreter that uses genuine
`with Config(**settings):` statements (one Python frame per open block) and genuine exception propagation.
"""

from __future__ import annotations

import contextvars
import json
import queue
import threading
import time

import numpy as np

from ..common import Violation, rhash

PROP = 'C19'
RULE = (
    'Hypothesis stateful testing (RuleBasedStateMachine): histories of up to 40 (100 thorough) events '
    'enter(thread, settings) / exit / exit-by-exception / read / create-inverse / apply-inverse (possibly in another '
    'thread, possibly after the creating block was left) / run-in-copied-context(sub-history), over 1-3 threads, with '
    'settings drawn from 3 solvers x throw flag x 2 option dicts x 3 recording callbacks (any subset of the fields). '
    'Reference model: a stack of dicts per thread, bottom = the library defaults. After every event, in every thread, '
    'Config.instance() equals the top of that thread\'s model stack field by field (inherit + override); after the last '
    'exit it is the default object itself; inverse.config equals the model configuration at its creation for ever; '
    'applying an inverse invokes the callback configured at its creation and runs the solver configured at its '
    'creation (max_steps reported by the solution); nothing a thread or a copied context does changes what another '
    'one reads. non-trivial = nesting depth >= 2 and (an exception exit or an inverse applied after its block was '
    'left), or >= 2 thread switches while two threads have open blocks. distinct = distinct event sequences.'
    ' Also: an exception raised by entering or leaving a properly nested block is itself a violation (key block-enter-or-exit-raised).'
    ' Also: the same operator object is inverted again and again (.I, .inverse(), InverseOperator(op)), under different configurations and from different threads: every inverse carries the configuration active at its own creation.'
    ' Also: a third option set holding an operator-valued option (a preconditioner), compared after every event with what the caller put into the dict.'
)
ASSUMPTIONS = [
    'interleavings are explored at the granularity of API events (the harness owns the schedule), not of bytecodes',
    'Config objects are created by the `with Config(...)` statement itself, never pre-built and entered later',
]
EXAMPLES = {'quick': 220, 'thorough': 3000}

FIELDS = ('solver', 'solver_throw', 'solver_options', 'solver_callback')


class _Boom(Exception):
    pass


class Pools:
    """The distinct setting values (built once per process, after JAX is imported)."""

    _inst = None

    def __init__(self):
        import jax.numpy as jnp
        import lineax as lx

        self.solvers = [lx.CG(rtol=1e-3, atol=1e-3, max_steps=5), lx.CG(rtol=1e-6, atol=1e-6, max_steps=40),
                        lx.CG(rtol=1e-8, atol=1e-8, max_steps=170),
                        # a solver that cannot converge on the 3x3 test system: makes solver_throw observable
                        lx.CG(rtol=1e-12, atol=1e-12, max_steps=1)]
        import jax

        from furax._base.diagonal import DiagonalOperator

        # (the third one holds a preconditioner: an operator-valued option that the solve wraps before use - the captured
        # and the active configurations must keep holding the caller's object)
        precond = DiagonalOperator(jnp.asarray([0.25, 0.3, 0.5], jnp.float32), in_structure=jax.ShapeDtypeStruct((3,), jnp.float32))
        self.options = [{}, {'y0': jnp.zeros(3, jnp.float32)}, {'preconditioner': precond}]
        # what the caller put into each dict (the dicts themselves are handed to the library)
        self.options_pristine = [dict(o) for o in self.options]
        self.calls: list = []

        def make(i):
            def cb(solution):
                self.calls.append((i, int(solution.stats['max_steps'])))
            cb.__name__ = f'cb{i}'
            return cb

        self.callbacks = [make(i) for i in range(3)]

    @classmethod
    def get(cls):
        if cls._inst is None:
            cls._inst = cls()
        return cls._inst

    def settings(self, s):
        """JSON settings {'solver': i, 'throw': b, 'options': i, 'callback': i} -> Config kwargs."""
        kw = {}
        if 'solver' in s:
            kw['solver'] = self.solvers[s['solver']]
        if 'throw' in s:
            kw['solver_throw'] = bool(s['throw'])
        if 'options' in s:
            kw['solver_options'] = self.options[s['options']]
        if 'callback' in s:
            kw['solver_callback'] = self.callbacks[s['callback']]
        return kw


def _spd():
    import jax
    import jax.numpy as jnp

    from furax._base.dense import DenseBlockDiagonalOperator

    M = jnp.asarray([[4.0, 1.0, 0.0], [1.0, 3.0, 0.5], [0.0, 0.5, 2.0]], jnp.float32)
    return DenseBlockDiagonalOperator(M, jax.ShapeDtypeStruct((3,), jnp.float32), 'ij,j->i')


class Worker(threading.Thread):
    def __init__(self, name):
        super().__init__(name=name, daemon=True)
        self.inbox: queue.Queue = queue.Queue()
        self.outbox: queue.Queue = queue.Queue()

    def call(self, *ev, timeout=120):
        self.inbox.put(ev)
        r = self.outbox.get(timeout=timeout)
        if isinstance(r, tuple) and r and r[0] == '__error__':
            raise r[1]
        if isinstance(r, tuple) and r and r[0] == '__violation__':
            raise Violation('block-enter-or-exit-raised', r[1])
        return r

    def run(self):
        try:
            self.interp(0)
        except BaseException as e:  # noqa: BLE001
            self.outbox.put(('__error__', e))

    def _simple(self, ev):
        """Events that do not open or close a block. Returns (handled, reply)."""
        import jax

        from furax import Config

        kind = ev[0]
        if kind == 'read':
            return True, Config.instance()
        if kind == 'create_inverse':
            # ev[1]: operator to invert (None: a fresh one); ev[2]: which spelling of "lazy inverse"
            op = ev[1] if len(ev) > 1 and ev[1] is not None else _spd()
            how = ev[2] if len(ev) > 2 else 0
            if how == 1:
                return True, op.inverse()
            if how == 2:
                from furax._base.core import InverseOperator

                return True, InverseOperator(op)
            return True, op.I
        if kind == 'apply_inverse':
            import jax.numpy as jnp

            y = ev[1](jnp.asarray([1.0, 2.0, 3.0], jnp.float32))
            jax.effects_barrier()
            return True, np.asarray(y)
        return False, None

    def interp(self, depth):
        from furax import Config

        while True:
            ev = self.inbox.get()
            kind = ev[0]
            try:
                handled, rep = self._simple(ev)
            except BaseException as e:  # noqa: BLE001
                self.outbox.put(('__error__', e))
                continue
            if handled:
                self.outbox.put(rep)
            elif kind == 'enter':
                r = 'normal'
                try:
                    with Config(**ev[1]) as c:
                        self.outbox.put(c)
                        r = self.interp(depth + 1)
                        if r == 'raise':
                            raise _Boom()
                except _Boom:
                    pass
                except Exception as e:  # noqa: BLE001
                    # entering or leaving a properly nested block must not raise (nothing else can raise here: the
                    # nested interpreter reports the errors of its own events itself)
                    self.outbox.put(('__violation__', f'{self.name} depth {depth}: entering/leaving a Config block raised {type(e).__name__}: {str(e)[:160]}'))
                    continue
                if r == 'stop':
                    return 'stop'
                self.outbox.put('exited')
            elif kind in ('exit', 'exit_exc'):
                if depth == 0:
                    self.outbox.put(('__error__', RuntimeError('exit without an open block')))
                    continue
                return 'normal' if kind == 'exit' else 'raise'
            elif kind == 'copied_context':
                ctx = contextvars.copy_context()
                try:
                    self.outbox.put(ctx.run(self._run_sub, ev[1]))
                except BaseException as e:  # noqa: BLE001
                    self.outbox.put(('__error__', e))
            elif kind == 'stop':
                return 'stop'

    def _run_sub(self, sub):
        """A well-nested sub-history inside a copied context; returns the observations."""
        from furax import Config

        obs = []

        def rec(i):
            while i < len(sub):
                s = sub[i]
                if s[0] == 'enter':
                    try:
                        with Config(**s[1]):
                            obs.append(('read', Config.instance()))
                            i, how = rec(i + 1)
                            if how == 'raise':
                                raise _Boom()
                    except _Boom:
                        pass
                    obs.append(('read', Config.instance()))
                elif s[0] == 'exit':
                    return i + 1, 'normal'
                elif s[0] == 'exit_exc':
                    return i + 1, 'raise'
                elif s[0] == 'read':
                    obs.append(('read', Config.instance()))
                    i += 1
                else:
                    i += 1
            return i, 'end'

        obs.append(('read', Config.instance()))
        rec(0)
        return obs


class History:
    """Executes events against furax and against the reference model; raises Violation on disagreement."""

    def __init__(self, nthreads):
        from furax import Config

        self.pools = Pools.get()
        self.workers = [Worker(f'w{i}') for i in range(nthreads)]
        for w in self.workers:
            w.start()
        self.defaults = None
        self.default_obj = []
        for w in self.workers:
            d = w.call('read')
            self.default_obj.append(d)
        d0 = self.default_obj[0]
        self.defaults = {f: getattr(d0, f) for f in FIELDS}
        for d in self.default_obj[1:]:
            if d is not d0:
                raise Violation('default-differs-between-threads', 'threads do not start from the same default configuration')
        self.stacks = [[dict(self.defaults)] for _ in self.workers]
        self.inverses: list = []  # (operator, model config at creation, creator thread, depth at creation, alive flag)
        self.steps: list = []
        self.max_depth = 0
        self.exc_exits = 0
        self.late_applies = 0
        self.switches_with_two_open = 0
        self.last_thread = None

    # ---- comparison helpers
    def _same_field(self, f, got, want):
        if got is want and f != 'solver_options':
            return True
        if f == 'solver_options':
            ref = want
            for o_, p_ in zip(self.pools.options, self.pools.options_pristine):
                if want is o_:
                    ref = p_  # the caller's dict must still hold the caller's objects
            return isinstance(got, dict) and got.keys() == ref.keys() and all(got[k] is ref[k] for k in got)
        if f == 'solver_throw':
            return got == want
        return False

    def _check_state(self, state, model, key, what):
        for f in FIELDS:
            if not self._same_field(f, getattr(state, f), model[f]):
                raise Violation(f'{key}:{f}', f'{what}: field {f} is {_name(getattr(state, f))}, model says {_name(model[f])}')

    def _settings_model(self, s):
        kw = self.pools.settings(s)
        return kw

    def invariant(self):
        for t, w in enumerate(self.workers):
            st = w.call('read')
            self._check_state(st, self.stacks[t][-1], 'active-config', f'thread {t} at depth {len(self.stacks[t]) - 1}')
            if len(self.stacks[t]) == 1 and st is not self.default_obj[t]:
                raise Violation('default-not-restored', f'thread {t}: all blocks left but Config.instance() is not the default object')
        for op, model, *_ in self.inverses:
            self._check_state(op.config, model, 'inverse-config', 'configuration captured by a lazy inverse')

    # ---- events
    def step(self, kind, t, arg=None):
        self.steps.append([kind, t, arg])
        w = self.workers[t]
        stack = self.stacks[t]
        if self.last_thread is not None and self.last_thread != t:
            if sum(len(s) > 1 for s in self.stacks) >= 2:
                self.switches_with_two_open += 1
        self.last_thread = t
        if kind == 'enter':
            kw = self._settings_model(arg)
            c = w.call('enter', kw)
            new = dict(stack[-1])
            new.update(kw)
            stack.append(new)
            self.max_depth = max(self.max_depth, len(stack) - 1)
            self._check_state(c, new, 'enter-returns', f'value bound by `with Config(...) as c` in thread {t}')
        elif kind in ('exit', 'exit_exc'):
            r = w.call(kind)
            if r != 'exited':
                raise Violation('exit-protocol', f'unexpected reply {r!r}')
            stack.pop()
            if kind == 'exit_exc':
                self.exc_exits += 1
        elif kind == 'read':
            st = w.call('read')
            self._check_state(st, stack[-1], 'active-config', f'thread {t} at depth {len(stack) - 1}')
        elif kind == 'create_inverse':
            # the same operator object may be inverted again and again, under different configurations and from
            # different threads: every inverse captures the configuration active at ITS creation
            which, how = (arg or [0, 0])
            if which and not hasattr(self, 'shared_ops'):
                self.shared_ops = [_spd(), _spd()]
            target = self.shared_ops[which - 1] if which else None
            if which:
                self.shared_inversions = getattr(self, 'shared_inversions', 0) + 1
            op = w.call('create_inverse', target, how)
            self.inverses.append((op, dict(stack[-1]), t, len(stack) - 1, list(stack)))
        elif kind == 'apply_inverse':
            if not self.inverses:
                return
            op, model, ct, cdepth, cstack = self.inverses[arg % len(self.inverses)]
            n0 = len(self.pools.calls)
            nonconv = model['solver'] is self.pools.solvers[3]
            try:
                y = w.call('apply_inverse', op)
                raised = None
            except Violation:
                raise
            except Exception as e:  # noqa: BLE001
                raised = e
                y = np.zeros(3)
            if nonconv and model['solver_throw'] and raised is None:
                raise Violation('throw-flag-not-captured', 'the inverse was created under solver_throw=True with a solver that cannot '
                                                           'converge, but applying it did not raise')
            if raised is not None and not (nonconv and model['solver_throw']):
                raise Violation('apply-raises', f'applying the inverse raised {type(raised).__name__} although it was created under '
                                                f'solver_throw={model["solver_throw"]}, max_steps={model["solver"].max_steps}: {str(raised)[:200]}')
            if raised is not None:
                self.invariant()
                return
            new_calls = self.pools.calls[n0:]
            cb = model['solver_callback']
            if cb in self.pools.callbacks:
                want_i = self.pools.callbacks.index(cb)
                if not new_calls:
                    raise Violation('callback-not-invoked', 'applying the inverse did not invoke the callback configured at its creation')
                if any(i != want_i for i, _ in new_calls):
                    raise Violation('wrong-callback', f'callback {new_calls[0][0]} invoked, the inverse was created under callback {want_i}')
                if any(ms != model['solver'].max_steps for _, ms in new_calls):
                    raise Violation('wrong-solver', f'solver with max_steps {new_calls[0][1]} ran, the inverse was created under max_steps {model["solver"].max_steps}')
            elif new_calls:
                raise Violation('wrong-callback', 'a recording callback was invoked although the inverse was created under the default callback')
            if not np.all(np.isfinite(y)):
                raise Violation('inverse-not-finite', 'NaN/Inf')
            # still inside the block it was created in?
            inside = (t == ct and len(stack) - 1 >= cdepth and stack[: cdepth + 1] == cstack[: cdepth + 1])
            if not inside:
                self.late_applies += 1
        elif kind == 'copied_context':
            sub = [(s[0], self.pools.settings(s[1]) if s[0] == 'enter' else None) for s in arg]
            obs = w.call('copied_context', sub)
            # model of the sub-history: starts from a copy of the thread's stack, discarded afterwards
            ms = [dict(stack[-1])]
            exp = [dict(ms[-1])]
            depth0 = 1

            def walk(i):
                while i < len(sub):
                    s = sub[i]
                    if s[0] == 'enter':
                        new = dict(ms[-1])
                        new.update(s[1])
                        ms.append(new)
                        exp.append(dict(new))
                        i = walk(i + 1)
                        ms.pop()
                        exp.append(dict(ms[-1]))
                    elif s[0] in ('exit', 'exit_exc'):
                        return i + 1
                    elif s[0] == 'read':
                        exp.append(dict(ms[-1]))
                        i += 1
                    else:
                        i += 1
                return i

            walk(0)
            if len(obs) != len(exp):
                raise Violation('copied-context-protocol', f'{len(obs)} observations, {len(exp)} expected')
            for (_, st), m in zip(obs, exp):
                self._check_state(st, m, 'copied-context', f'inside copy_context().run in thread {t}')
        else:
            raise ValueError(kind)
        self.invariant()

    def open_depth(self, t):
        return len(self.stacks[t]) - 1

    def close(self):
        for t, w in enumerate(self.workers):
            while len(self.stacks[t]) > 1:
                w.call('exit')
                self.stacks[t].pop()
        try:
            self.invariant()
        finally:
            for w in self.workers:
                w.inbox.put(('stop',))
            for w in self.workers:
                w.join(timeout=10)

    def nontrivial(self):
        a = self.max_depth >= 2 and (self.exc_exits >= 1 or self.late_applies >= 1)
        b = self.switches_with_two_open >= 2
        return a or b

    def classes(self):
        c = [f'threads:{len(self.workers)}', f'depth:{min(self.max_depth, 4)}']
        if self.exc_exits:
            c.append('exception_exit')
        if self.late_applies:
            c.append('inverse_applied_outside_its_block')
        if self.inverses:
            c.append('inverse_created')
        if getattr(self, 'shared_inversions', 0) >= 2:
            c.append('same_operator_inverted_again')
        if self.switches_with_two_open >= 2:
            c.append('interleaved_open_blocks')
        if any(s[0] == 'copied_context' for s in self.steps):
            c.append('copied_context')
        return c


def _name(v):
    if callable(v) and hasattr(v, '__name__'):
        return v.__name__
    s = repr(v)
    return s if len(s) < 80 else s[:80] + '...'


# =============================================================================================
# replay / plain execution of a recorded history


def check(recipe, mode):
    h = History(recipe['threads'])
    try:
        for kind, t, arg in recipe['steps']:
            if kind in ('exit', 'exit_exc') and h.open_depth(t) == 0:
                continue  # (shrunk / edited histories stay well nested)
            h.step(kind, t, arg)
    finally:
        try:
            h.close()
        except Violation:
            raise
    return {'nontrivial': h.nontrivial(), 'classes': h.classes()}


# =============================================================================================
# the state machine


def custom_run(ctx, examples, budget):
    import hypothesis
    from hypothesis import HealthCheck, settings
    from hypothesis import strategies as st
    from hypothesis.stateful import RuleBasedStateMachine, invariant, precondition, rule, run_state_machine_as_test, initialize

    from ..common import derive_seed

    stats = ctx.stats
    if examples is None:
        examples = EXAMPLES[ctx.tier]
    steps_max = 40 if ctx.tier == 'quick' else 100
    nthreads_choice = [1, 1, 2, 2, 3] if ctx.shard % 4 else [1]
    state = {'last': None, 'fail': None}

    settings_st = st.fixed_dictionaries({}, optional={
        'solver': st.integers(0, 3), 'throw': st.booleans(), 'options': st.integers(0, 2), 'callback': st.integers(0, 2)})
    sub_st = st.lists(st.one_of(st.tuples(st.just('enter'), settings_st), st.tuples(st.just('read'), st.none()),
                                st.tuples(st.just('exit'), st.none()), st.tuples(st.just('exit_exc'), st.none())), max_size=6)

    class Machine(RuleBasedStateMachine):
        def __init__(self):
            super().__init__()
            self.h = None

        @initialize(n=st.sampled_from(nthreads_choice))
        def start(self, n):
            self.h = History(n)
            state['last'] = self.h

        def _t(self, t):
            return t % len(self.h.workers)

        def _do(self, kind, t, arg=None):
            try:
                self.h.step(kind, self._t(t), arg)
            except Violation as v:
                state['fail'] = (v, {'threads': len(self.h.workers), 'steps': json.loads(json.dumps(self.h.steps))})
                raise

        @rule(t=st.integers(0, 2), s=settings_st)
        def enter(self, t, s):
            if self.h.open_depth(self._t(t)) < 5:
                self._do('enter', t, s)

        @rule(t=st.integers(0, 2), s=settings_st)
        def enter_again(self, t, s):
            # (a second rule for the same event: raises the share of deeply nested histories)
            if self.h.open_depth(self._t(t)) < 5:
                self._do('enter', t, s)

        @rule(t=st.integers(0, 2))
        def exit(self, t):
            if self.h.open_depth(self._t(t)) > 0:
                self._do('exit', t)

        @rule(t=st.integers(0, 2))
        def exit_by_exception(self, t):
            if self.h.open_depth(self._t(t)) > 0:
                self._do('exit_exc', t)

        @rule(t=st.integers(0, 2))
        def read(self, t):
            self._do('read', t)

        @rule(t=st.integers(0, 2), which=st.sampled_from([0, 1, 1, 2]), how=st.sampled_from([0, 0, 1, 2]))
        def create_inverse(self, t, which, how):
            if len(self.h.inverses) < 6:
                self._do('create_inverse', t, [which, how])

        @rule(t=st.integers(0, 2), i=st.integers(0, 5))
        def apply_inverse(self, t, i):
            if self.h.inverses:
                self._do('apply_inverse', t, i)

        @rule(t=st.integers(0, 2), sub=sub_st)
        def copied_context(self, t, sub):
            self._do('copied_context', t, [list(s) for s in sub])

        def teardown(self):
            h = self.h
            if h is None:
                return
            try:
                if state['fail'] is None:
                    try:
                        h.close()
                    except Violation as v:
                        state['fail'] = (v, {'threads': len(h.workers), 'steps': json.loads(json.dumps(h.steps))})
                        raise
                else:
                    for w in h.workers:
                        w.inbox.put(('stop',))
            finally:
                stats.evaluations += 1
                key = rhash(h.steps)
                stats.distinct.add(key)
                for c in h.classes():
                    stats.classes[c] = stats.classes.get(c, 0) + 1
                if h.nontrivial():
                    if key not in stats.nontrivial and len(stats.samples) < 3 and ctx.shard == 0:
                        stats.samples.append({'threads': len(h.workers), 'steps': json.loads(json.dumps(h.steps))})
                    stats.nontrivial.add(key)

    done = 0
    ibatch = 0
    batch = max(10, examples // 3)
    while done < examples and len(stats.failures) < 3:
        if time.time() - ctx.t0 > budget and done >= max(1, examples // 10):
            stats.stopped_early = True
            break
        n = min(batch, examples - done)
        state['fail'] = None
        s = derive_seed(ctx.seed, ctx.prop, ctx.mode, ctx.shard, ibatch)
        try:
            run_state_machine_as_test(
                hypothesis.seed(s)(Machine),
                settings=settings(max_examples=n, stateful_step_count=steps_max, deadline=None, database=None,
                                  suppress_health_check=list(HealthCheck), report_multiple_bugs=False, print_blob=False))
        except Violation:
            pass
        except BaseException as e:  # noqa: BLE001
            if isinstance(e, KeyboardInterrupt):
                raise
            if state['fail'] is None:
                import traceback

                stats.errors.append({'recipe': None, 'traceback': traceback.format_exc()[-3000:], 'source': 'stateful'})
        if state['fail'] is not None:
            v, recipe = state['fail']
            stats.failures.append({'key': v.key, 'detail': v.detail, 'recipe': recipe, 'mode': ctx.mode,
                                   'source': 'hypothesis-stateful', 'replay_file': None})
            stats.excluded_keys.add(v.key)
            break
        done += n
        ibatch += 1
