"""C03 - transpose is the exact adjoint of every operator."""

from __future__ import annotations

import numpy as np
from hypothesis import strategies as st

from .. import exprcheck as X
from .. import gen, ops
from .. import structs as St
from ..common import Violation, must_not_raise

PROP = 'C03'
EXAMPLES = {'quick': 90, 'thorough': 2500}
RULE = (
    'Hypothesis draws an operator or composite (every leaf kind with its parameter space: einsum subscripts, axes, '
    'index expressions, Toeplitz methods, rotations, observation matrix; sums, compositions, block row/diag/column, '
    'scalar multiples, transposes of transposes, closed-form inverses) over leaves, pytrees and Stokes containers. '
    'Oracle: T = op.T has swapped structures; T applied to basis/probe vectors equals the transposed numpy matrix; '
    'T.T denotes the numpy matrix; <op x, y> == <x, T y> on integer vectors; the generic TransposeOperator(op) '
    '(jax.linear_transpose) denotes the same matrix as the hand-written transpose; operators declared symmetric '
    'return themselves. non-trivial = the matrix is not symmetric and (non-square or >= 2 leaves).'
    ' Also: sums/products of einsum-block operators sharing their block subscripts in different roles (transposed one after the other); complex coefficients on complex data (the transpose does not conjugate); block operators with 9-17 blocks.'
)
ASSUMPTIONS = [
    'transposes of the iterative-solver inverse are excluded (the property excludes them): no lazy CG inverse is generated',
    'index arrays in bounds; sizes <= ~60 elements',
]


@st.composite
def symmetric_composite_case(draw, mode):
    """Compositions and sums whose operands are all DECLARED symmetric (diagonal, scalar, Toeplitz, HWP, identity) but
    do not commute: the transpose of the composite is not the composite."""
    G = gen.GenCtx(mode, cap=16, allow_cg=False)
    if draw(st.booleans()):
        S = St.leaf([draw(st.integers(2, 5))] if draw(st.booleans()) else [draw(st.integers(1, 2)), draw(st.integers(2, 4))],
                    draw(st.sampled_from(gen.dtypes(mode))))
        kinds = ['diag', 'diag', 'toeplitz', 'toeplitz', 'hom', 'id']
    else:
        S = draw(gen.structure(mode, cap=12, kinds=('stokes', 'tuple', 'dict', 'related'), min_rank=1))
        kinds = ['diag', 'diag', 'hom', 'id'] + (['hwp'] if S['t'] == 'stokes' else [])
    n = draw(st.integers(2, 4))
    opsl = [gen.leaf_operand(draw, G, S, square=True, kind=draw(st.sampled_from(kinds))) for _ in range(n)]
    if draw(st.integers(0, 3)) == 0:
        expr = {'k': 'add', 'ops': opsl, 'via': draw(st.sampled_from(['list', 'plus'])), 'tree': gen._ptree(draw, n)}
    else:
        expr = {'k': 'compose', 'ops': opsl, 'via': draw(st.sampled_from(['list', 'matmul'])), 'tree': gen._ptree(draw, n)}
    return {'defs': G.defs, 'expr': expr, 'probe': draw(st.lists(st.integers(0, 1000), min_size=8, max_size=8))}


# einsum blocks with the SAME block subscripts in different roles: which two block axes a transposition swaps depends on
# the input and output subscripts too (summed axis <-> axis carried to the output; the third one is a batch axis)
_ROLES = {
    'kij': ['kij,kj->ki', 'kij,ij->ik', 'kij,ki->kj', 'kij,ik->ij', 'kij,jk->ji', 'kij,ji->jk'],
    'ij': ['ij,j->i', 'ij,i->j'],
}


@st.composite
def dense_roles_case(draw, mode):
    """Several einsum-block operators sharing their block subscripts, transposed one after the other (sum or product):
    every transpose is the adjoint of ITS operator, whatever was transposed before."""
    lefts = draw(st.sampled_from(['kij', 'kij', 'kij', 'ij']))
    d = draw(st.integers(2, 3))
    dt = draw(st.sampled_from(gen.dtypes(mode)))
    S = St.leaf([d] * (len(lefts) - 1), dt)
    n = draw(st.integers(2, 3))
    opsl = []
    for _ in range(n):
        sub = draw(st.sampled_from(_ROLES[lefts]))
        b = np.asarray(draw(st.lists(st.integers(-3, 3), min_size=d ** len(lefts), max_size=d ** len(lefts))), dtype=float)
        opsl.append({'k': 'dense', 'in': S, 'blocks': {'shared': b.reshape([d] * len(lefts)).tolist()}, 'subscripts': sub,
                     'vdtype': 'float32'})
    if draw(st.booleans()):
        expr = {'k': 'add', 'ops': opsl, 'via': draw(st.sampled_from(['list', 'plus'])), 'tree': gen._ptree(draw, n)}
    else:
        expr = {'k': 'compose', 'ops': opsl, 'via': draw(st.sampled_from(['list', 'matmul'])), 'tree': gen._ptree(draw, n)}
    return {'defs': [], 'expr': expr, 'probe': draw(st.lists(st.integers(0, 1000), min_size=8, max_size=8))}


def strategy(tier, mode):
    # (one_of de-duplicates a strategy object listed several times: build one object per listed branch)
    small = lambda: gen.expression_case(mode, cap=20, max_len=4, depth=2, allow_cg=False)  # noqa: E731
    big = lambda: gen.expression_case(mode, cap=36, max_len=7, depth=3, allow_cg=False)  # noqa: E731
    from .c04 import complex_case  # complex coefficients (and data): the transpose does not conjugate
    from .c10 import single_case as block_case  # wide block operators (9-17 blocks): column <-> row transposes

    if tier == 'quick':
        return st.one_of(small(), small(), small(), small(), small(), symmetric_composite_case(mode), dense_roles_case(mode),
                         complex_case(tier, mode), block_case(mode, wide=True, allow_cg=False))
    return st.one_of(small(), small(), small(), big(), big(), symmetric_composite_case(mode), dense_roles_case(mode),
                     complex_case(tier, mode), block_case(mode, wide=True, allow_cg=False))


def check(case, mode):
    if 'complex' in case:
        from .c04 import _check_complex

        return _check_complex(case['complex'], mode)
    import lineax as lx

    from furax._base.core import TransposeOperator

    defs = case.get('defs', [])
    den = ops.denote_case(case)
    denT = ops.Den(den.M.T.copy(), den.A.T.copy(), den.out_S, den.in_S, den.flags, den.nf)
    op = must_not_raise('build', ops.build_case, case)
    T = must_not_raise('transpose', lambda: op.T)
    X.check_structures(T, denT, 'T-structure')
    X.compare_with_den(T, denT, case['probe'], 'T-value')
    TT = must_not_raise('transpose-twice', lambda: T.T)
    X.check_structures(TT, den, 'TT-structure')
    X.compare_with_den(TT, den, case['probe'], 'TT-value', max_basis=8)
    # adjoint identity on integer vectors
    n, m = den.M.shape[1], den.M.shape[0]
    p = case['probe']
    x = np.array([((p[i % 8] + 3 * i) % 7) - 3 for i in range(n)], dtype=float)
    y = np.array([((p[(i + 3) % 8] + 5 * i) % 7) - 3 for i in range(m)], dtype=float)
    ax, _ = must_not_raise('mv', ops.apply_flat, op, den.in_S, x)
    aty, _ = must_not_raise('T-mv', ops.apply_flat, T, den.out_S, y)
    lhs, rhs = float(ax @ y), float(x @ aty)
    eps = X.eps_of(den)
    bound = 4 * (float(np.abs(y) @ ops.tolerance(den, np.abs(x), eps)) + float(np.abs(x) @ ops.tolerance(denT, np.abs(y), eps)))
    if abs(lhs - rhs) > bound + 1e-30:
        raise Violation('adjoint-identity', f'<Ax,y>={lhs!r} but <x,A^T y>={rhs!r} (bound {bound:.3g})')
    # the generic transpose agrees with the hand-written one
    classes = []
    if 'toast' not in X.kinds_in(case['expr'], defs):
        G = TransposeOperator(op)
        X.compare_with_den(G, denT, case['probe'], 'generic-transpose-value', max_basis=8)
        classes.append('generic_transpose_compared')
    if lx.is_symmetric(op):
        classes.append('declared_symmetric')
        if T is not op:
            raise Violation('symmetric-not-self', f'{type(op).__name__} is declared symmetric but op.T is not op')
    kinds = X.kinds_in(case['expr'], defs)
    classes += ['kind:' + k for k in kinds]
    sym = den.M.shape[0] == den.M.shape[1] and np.array_equal(den.M, den.M.T)
    nontrivial = (not sym) and (den.M.shape[0] != den.M.shape[1] or St.nleaves(den.in_S) >= 2 or St.nleaves(den.out_S) >= 2)
    return {'nontrivial': nontrivial, 'classes': classes}
