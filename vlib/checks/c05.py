"""C05 - declared input/output structures are honest."""

from __future__ import annotations

import math

import numpy as np
from hypothesis import strategies as st

from .. import exprcheck as X
from .. import gen, ops
from .. import structs as St
from ..common import Violation, must_not_raise
from ..rulewatch import RuleWatch

PROP = 'C05'
EXAMPLES = {'quick': 90, 'thorough': 2500}
RULE = (
    'Hypothesis draws operators, composites, transposes, closed-form and lazy inverses over float32 / float64 / '
    'mixed-dtype pytrees (mixed only with 64-bit mode on), parameters never wider than the data, python scalars '
    'weak-typed. Oracle, for op, op.T, op.reduce() (and op.I when square): four-way agreement between '
    'op.out_structure(), the structure of the value returned by op.mv(x) on a concrete x matching in_structure(), '
    'jax.eval_shape(op.mv, op.in_structure()), and the pure-python structure rule of the harness (tree type, leaf '
    'shapes, leaf dtypes, exactly); in_size/out_size == element counts; promoted dtypes == numpy result_type of the '
    'leaves. non-trivial = the tree has mixed dtypes or contains a class overriding out_structure (square/'
    'symmetric/orthogonal decorator, block, sum, composition, explicit index output).'
    ' Also: constructions the library normally refuses (strict diagonal that would change a leaf shape, non-square observation matrix): if accepted, out_structure() must equal the structure of mv\'s result.'
    ' Also: block operators with 9-17 blocks (among them blocks of one class with different outputs); the scalar-with-axes borderline construction.'
)
ASSUMPTIONS = [
    'operator parameters no wider than the data dtype (stated in the property); float64 structures only with x64 on',
]

OVERRIDING = {'id', 'hom', 'diag', 'hwp', 'rot', 'toeplitz', 'toast', 'add', 'sub', 'compose', 'block', 'index',
              'T', 'TG', 'I'}


def strategy(tier, mode):
    from .c08 import borderline_case

    cap = 20 if tier == 'quick' else 36
    e = gen.expression_case(mode, cap=cap, max_len=5, depth=2)
    # constructions the library normally refuses (a strict diagonal whose broadcasting would change a leaf shape, a
    # non-square observation matrix): refusing is fine; if one is accepted, what it declares must still be what mv returns
    from .c10 import single_case as block_case

    b = borderline_case(mode)
    w = block_case(mode, wide=True, allow_cg=False)  # block operators with 9-17 blocks
    return st.integers(0, 11).flatmap(lambda i: b if i == 0 else (w if i == 1 else e))


def _actual_matches(S, value, key, what):
    if not St.same_structure(S, value):
        raise Violation(key, f'{what}: got {St.describe(value)}; expected {St.describe(St.to_jax(S))}')


def _check_one(op, in_S, out_S, key, probe):
    import jax

    ins = must_not_raise(key + ':in_structure', op.in_structure)
    outs = must_not_raise(key + ':out_structure', op.out_structure)
    _actual_matches(in_S, ins, key + ':declared-in', 'in_structure()')
    _actual_matches(out_S, outs, key + ':declared-out', 'out_structure()')
    n = St.size(in_S)
    x = np.array([((probe[i % 8] + i) % 5) - 2 for i in range(n)], dtype=float)
    y = must_not_raise(key + ':mv', op.mv, St.value_from_flat(in_S, x))
    _actual_matches(out_S, y, key + ':mv-structure', 'structure of op.mv(x)')
    traced = must_not_raise(key + ':eval_shape', jax.eval_shape, op.mv, ins)
    _actual_matches(out_S, traced, key + ':traced-structure', 'jax.eval_shape(op.mv, in_structure())')
    if must_not_raise(key + ':in_size', op.in_size) != n:
        raise Violation(key + ':in_size', f'{op.in_size()} != {n}')
    m = St.size(out_S)
    if must_not_raise(key + ':out_size', op.out_size) != m:
        raise Violation(key + ':out_size', f'{op.out_size()} != {m}')
    for name, S in (('in_promoted_dtype', in_S), ('out_promoted_dtype', out_S)):
        want = np.result_type(*[np.dtype(dt) for _, dt in St.leaves(S)])
        got = np.dtype(getattr(op, name))
        if got != want:
            raise Violation(key + ':' + name, f'{got} != {want}')


def _check_borderline(case):
    import jax
    import jax.numpy as jnp

    what = case['special']
    try:
        if what == 'diag_unit_axis':
            from furax._base.diagonal import DiagonalOperator

            op = DiagonalOperator(jnp.asarray(case['vals'], jnp.float32), axis_destination=case['axis'],
                                  in_structure=St.to_jax(case['S']))
        elif what == 'scalar_with_axes':
            from furax._base.core import CompositionOperator, HomothetyOperator, IdentityOperator

            base = IdentityOperator(St.to_jax(case['S']))
            k = jnp.full(tuple(case['kshape']), 2.0, jnp.float32)
            op = k * base if case['form'] == 'k*A' else (base * k if case['form'] == 'A*k' else base / k)
        else:
            op = ops.build_toast({'in': {'dtype': 'float32'}, 'matrix': case['matrix']})
    except Exception as e:  # noqa: BLE001  (refusing such a construction is the normal behaviour)
        return {'nontrivial': False, 'classes': ['borderline:' + what, 'refused:' + type(e).__name__]}
    ins = must_not_raise('borderline:in_structure', op.in_structure)
    outs = must_not_raise('borderline:out_structure', op.out_structure)
    x = jax.tree.map(lambda l: jnp.ones(l.shape, l.dtype), ins)
    y = must_not_raise('borderline:mv', op.mv, x)
    got = jax.tree.map(lambda l: jax.ShapeDtypeStruct(l.shape, l.dtype), y)
    if jax.tree.structure(got) != jax.tree.structure(outs) or jax.tree.leaves(got) != jax.tree.leaves(outs):
        raise Violation('borderline:mv-structure', f'{type(op).__name__} ({what}) declares {St.describe(outs)} but mv returns {St.describe(y)}')
    return {'nontrivial': True, 'classes': ['borderline:' + what, 'accepted']}


def check(case, mode):
    if 'special' in case:
        return _check_borderline(case)
    defs = case.get('defs', [])
    den = ops.denote_case(case)
    op = must_not_raise('build', ops.build_case, case)
    p = case['probe']
    _check_one(op, den.in_S, den.out_S, 'op', p)
    T = must_not_raise('transpose', lambda: op.T)
    if 'cg' not in den.flags:
        _check_one(T, den.out_S, den.in_S, 'T', p)
    else:
        # transposes of iterative inverses are unsupported: declared structures only
        _actual_matches(den.out_S, T.in_structure(), 'T:declared-in', 'in_structure()')
        _actual_matches(den.in_S, T.out_structure(), 'T:declared-out', 'out_structure()')
    watch = RuleWatch.get()
    watch.reset()
    red = must_not_raise('reduce', op.reduce)
    fired = sorted(watch.fired)
    dts = {dt for _, dt in St.leaves(den.in_S)} | {dt for _, dt in St.leaves(den.out_S)}
    mixed = len(dts) > 1
    try:
        _check_one(red, den.in_S, den.out_S, 'reduced', p)
    except Violation as v:
        # (the same wrong leaf dtype also surfaces as a failing transposition downstream of the reduced product:
        # "cotangent type does not match function output")
        if 'TransposeIndexRule' in fired and _mixed_anywhere(case['expr'], defs) and (
                'mv-structure' in v.key or 'traced-structure' in v.key
                or ('raises:TypeError' in v.key and 'cotangent type does not match' in v.detail)):
            raise Violation('reduce/TransposeIndexRule/mixed-leaf-dtypes', v.detail)
        raise
    classes = []
    if St.equal(den.in_S, den.out_S) and 'cg' not in den.flags:
        # closed-form or lazy inverse: declared structures are the swapped ones
        try:
            with ops.quiet_config():
                inv = op.I
        except Exception:  # noqa: BLE001  (non-invertible operators may refuse)
            inv = None
        if inv is not None:
            _actual_matches(den.out_S, must_not_raise('I:in_structure', inv.in_structure), 'I:declared-in', 'in_structure()')
            _actual_matches(den.in_S, must_not_raise('I:out_structure', inv.out_structure), 'I:declared-out', 'out_structure()')
            classes.append('inverse_structures')
    kinds = X.kinds_in(case['expr'], defs)
    ov = [k for k in kinds if k in OVERRIDING]
    classes += ['kind:' + k for k in kinds]
    if mixed:
        classes.append('mixed_dtypes')
    if fired:
        classes.append('reduced_by_rule')
    return {'nontrivial': mixed or bool(ov), 'classes': classes}


def _mixed_anywhere(r, defs) -> bool:
    """Does some operand of the expression act on a pytree with leaves of different dtypes?"""
    k = r['k']
    if k == 'ref':
        return _mixed_anywhere(defs[r['i']], defs)
    if k in ops.LEAF_KINDS:
        return len({dt for _, dt in St.leaves(r['in'])}) > 1
    if k in ('compose', 'add', 'sub'):
        return any(_mixed_anywhere(o, defs) for o in r['ops'])
    if k in ('scale', 'neg', 'pos', 'reduced', 'T', 'TG', 'I'):
        return _mixed_anywhere(r['op'], defs)
    if k == 'block':
        return any(_mixed_anywhere(b, defs) for b in ops._block_leaves(r['blocks']))
    return False
