"""C15 - polarimetry operators realise their Mueller matrices."""

from __future__ import annotations

import math

import numpy as np
from hypothesis import strategies as st

from .. import structs as St
from ..common import Violation, must_not_raise

PROP = 'C15'
EXAMPLES = {'quick': 180, 'thorough': 4000}
RULE = (
    'Hypothesis draws a Stokes kind (I, QU, IQU, IQUV), a shape of rank 0-2, and a chain of 1-8 polarimetry operators '
    '(QU rotations and their transposes with angle arrays of any broadcastable shape - scalar, per-sample, per-'
    'detector (d,1) -, any sign, magnitudes up to 1e3; ideal HWP; linear polariser at the output end), or one of the '
    'three create() factories with or without angles. Oracle: explicit 4x4 Mueller matrices per element in float64 '
    '(HWP = diag(1,1,-1,-1); R(a) rotates (Q,U) by 2a, its transpose by -2a; polariser row (1,1,0,0)/2) restricted to '
    'the components present, applied in sequence: every operator and its transpose by value, the chain before and '
    'after reduce() (which exercises R(a)R(b)=R(a+b), R(a)HWP=HWP R(-a), pol HWP = pol), factories == the '
    'corresponding explicit products before and after reduce(). Tolerance (8 n_ops + 4 sum|angles|) eps |x|. '
    'non-trivial = a non-I kind with a non-zero angle that is not a multiple of pi/4, or a chain with >= 1 HWP and >= 1 rotation.'
    ' Also: pairs of rotations that almost cancel (angles of 2000-6000 rad differing by 4e-6..8e-6 relative); after every factory call a second operator is built from the caller\'s same angle array, which must be unmodified.'
)
ASSUMPTIONS = [
    'angles have the dtype of the Stokes components or narrower; the reference uses the angle values as rounded to that dtype',
]

IDX = {'i': 0, 'q': 1, 'u': 2, 'v': 3}


@st.composite
def angles_st(draw, shape):
    forms = [[]]
    if shape:
        forms += [list(shape), list(shape[-1:]), [1] * len(shape)]
        if len(shape) == 2:
            forms += [[shape[0], 1]]
    ashape = draw(st.sampled_from(forms))
    n = math.prod(ashape)
    mag = draw(st.sampled_from(['small', 'small', 'mid', 'big']))
    if mag == 'small':
        vals = draw(st.lists(st.sampled_from([0.0, 0.1, -0.3, 0.5, 0.7853981633974483, -1.2, 1.0, 2.5, -0.125, 3.141592653589793 / 3]),
                             min_size=n, max_size=n))
    elif mag == 'mid':
        vals = draw(st.lists(st.floats(-20, 20, allow_nan=False, width=32), min_size=n, max_size=n))
    else:
        vals = draw(st.lists(st.floats(-1000, 1000, allow_nan=False, width=32), min_size=n, max_size=n))
    return np.asarray(vals, dtype=float).reshape(ashape).tolist()


@st.composite
def case_st(draw, mode):
    kind = draw(st.sampled_from(['I', 'QU', 'IQU', 'IQUV', 'IQU', 'QU', 'IQUV']))
    shape = [draw(st.integers(1, 3)) for _ in range(draw(st.integers(0, 2)))]
    dt = draw(st.sampled_from(['float32', 'float64'])) if mode == 'x64' else 'float32'
    # angle dtype: any real floating dtype (float64 angles on float32 data are legitimate: accumulated HWP angles)
    adt = draw(st.sampled_from(['float32', 'float64'])) if mode == 'x64' else 'float32'
    np_angles = draw(st.integers(0, 3)) == 0  # angles given as a numpy ndarray instead of a JAX array
    what = draw(st.sampled_from(['chain'] * 5 + ['hwp_create', 'pol_create', 'rot_create']))
    seed = draw(st.integers(0, 99))
    if what == 'chain':
        n = draw(st.integers(1, 8))
        elems = []
        for _ in range(n):
            k = draw(st.sampled_from(['rot', 'rot', 'rotT', 'hwp']))
            rots = [i for i, e in enumerate(elems) if 'angles' in e and 'same_as' not in e]
            if k == 'hwp':
                elems.append({'k': 'hwp'})
            elif rots and draw(st.integers(0, 2)) == 0:
                # the SAME rotation object again (as itself or transposed)
                j = draw(st.sampled_from(rots))
                elems.append({'k': k, 'angles': elems[j]['angles'], 'same_as': j})
            else:
                elems.append({'k': k, 'angles': draw(angles_st(shape))})
        if draw(st.integers(0, 5)) == 0:
            # two rotations that ALMOST cancel: large angles (accumulated HWP angle) differing by a few 1e-6 relative
            base = draw(st.lists(st.floats(2000, 6000, allow_nan=False, width=32), min_size=1, max_size=1))[0]
            base = base * draw(st.sampled_from([1, -1]))
            other = float(np.float32(base * (1 + draw(st.sampled_from([4e-6, -4e-6, 8e-6])))))
            pair = [{'k': 'rot', 'angles': base}, {'k': 'rotT', 'angles': other}]
            if draw(st.booleans()):
                pair = [{'k': 'rotT', 'angles': base}, {'k': 'rot', 'angles': other}]
            pos_ = draw(st.integers(0, len(elems)))
            elems[pos_:pos_] = pair
            for e_ in elems:
                if 'same_as' in e_ and e_['same_as'] >= pos_:
                    e_['same_as'] += 2
        pol = draw(st.booleans())
        return {'what': 'chain', 'kind': kind, 'shape': shape, 'dtype': dt, 'adtype': adt, 'elems': elems, 'pol': pol,
                'seed': seed, 'np_angles': np_angles}
    use_angles = draw(st.booleans()) or what == 'rot_create'
    return {'what': what, 'kind': kind, 'shape': shape, 'dtype': dt, 'adtype': adt,
            'angles': draw(angles_st(shape)) if use_angles else None, 'seed': seed, 'np_angles': np_angles}


def strategy(tier, mode):
    return case_st(mode)


# ---------------------------------------------------------------------------------------------
# numpy Mueller reference


def mueller(elem, adtype):
    """4x4 Mueller matrices, broadcast over the angle array: shape angles.shape + (4, 4)."""
    if elem['k'] == 'hwp':
        return np.diag([1.0, 1.0, -1.0, -1.0])
    if elem['k'] == 'pol':
        M = np.zeros((4, 4))
        M[0, 0] = M[0, 1] = 0.5
        return M
    a = np.asarray(np.asarray(elem['angles'], dtype=adtype), dtype=np.float64)
    if elem['k'] == 'rotT':
        a = -a
    c, s = np.cos(2 * a), np.sin(2 * a)
    M = np.zeros(a.shape + (4, 4))
    M[..., 0, 0] = 1
    M[..., 3, 3] = 1
    M[..., 1, 1] = c
    M[..., 1, 2] = -s
    M[..., 2, 1] = s
    M[..., 2, 2] = c
    return M


def apply_ref(elems, kind, comps, adtype):
    """comps: dict letter -> array. Absent components are zero in the 4-vector and dropped at the end."""
    shape = next(iter(comps.values())).shape
    vec = np.zeros(shape + (4,))
    for c, a in comps.items():
        vec[..., IDX[c]] = a
    for e in elems:  # application order
        M = mueller(e, adtype)
        if M.ndim == 2:
            vec = np.einsum('ab,...b->...a', M, vec)
        else:
            Mb = np.broadcast_to(M, np.broadcast_shapes(M.shape[:-2], shape) + (4, 4))
            vec = np.einsum('...ab,...b->...a', Mb, np.broadcast_to(vec, Mb.shape[:-1]))
    return vec


def _input(kind, shape, seed):
    comps = {}
    n = math.prod(shape)
    for t, c in enumerate(kind.lower()):
        comps[c] = (((np.arange(n) * (2 * t + 3) + seed + 7 * t) % 11) - 5).astype(float).reshape(shape)
    return comps


def _compare(got_tree, want_vec, kind_out, tol, key):
    import jax

    leaves = [np.asarray(l, dtype=float) for l in jax.tree.leaves(got_tree)]
    letters = kind_out.lower() if kind_out != 'scalar' else 'i'
    if len(leaves) != len(letters):
        raise Violation(key + ':structure', f'{len(leaves)} components returned, expected {len(letters)}')
    for l, c in zip(leaves, letters):
        w = want_vec[..., IDX[c]]
        if l.shape != w.shape:
            raise Violation(key + ':shape', f'component {c}: shape {l.shape}, expected {w.shape}')
        err = np.abs(l - w)
        if not np.all(np.isfinite(l)) or err.max(initial=0.0) > tol:
            raise Violation(key, f'component {c}: max error {err.max():.3g} > tol {tol:.3g}')


def check(recipe, mode):
    import jax.numpy as jnp

    from furax._base.core import CompositionOperator
    from furax.landscapes import StokesPyTree
    from furax.operators.hwp import HWPOperator
    from furax.operators.polarizers import LinearPolarizerOperator
    from furax.operators.qu_rotations import QURotationOperator

    kind, shape, dt, adt = recipe['kind'], tuple(recipe['shape']), recipe['dtype'], recipe['adtype']
    S = St.stokes(kind, shape, dt)
    struct = St.to_jax(S)
    comps = _input(kind, shape, recipe['seed'])
    x = StokesPyTree.from_stokes(*[jnp.asarray(comps[c], dtype=dt) for c in kind.lower()])
    # results are float32-accurate when data and angles are float32, or when the angles are the narrower ones;
    # float64 angles on float32 data promote to float64 (the integer-valued inputs are exact in float32)
    eps = float(np.finfo(np.float32 if adt == 'float32' else np.float64).eps)
    if dt == 'float32' and adt == 'float32':
        eps = float(np.finfo(np.float32).eps)

    def arr(a):
        a = np.asarray(a, dtype=adt)
        return a if recipe.get('np_angles') else jnp.asarray(a)
    xmax = 5.0 * 2

    def tol_for(elems):
        asum = sum(float(np.abs(np.asarray(e['angles'], dtype=float)).max(initial=0.0)) for e in elems if 'angles' in e)
        return (8 * max(1, len(elems)) + 8 * asum) * eps * xmax * 2 + 1e-30

    def build(e):
        if e['k'] == 'hwp':
            return HWPOperator(struct)
        if e['k'] == 'pol':
            return LinearPolarizerOperator(struct)
        r = QURotationOperator(arr(e['angles']), struct)
        return r.T if e['k'] == 'rotT' else r

    classes = ['kind:' + kind]
    if recipe['what'] == 'chain':
        elems = list(recipe['elems'])
        if recipe['pol']:
            elems = elems + [{'k': 'pol'}]
        # application order = listed order; operator order is the reverse
        built = []
        base_rot = {}
        for i, e in enumerate(elems):
            if 'angles' in e:
                j = e.get('same_as', i)
                if j not in base_rot:
                    base_rot[j] = must_not_raise('build', QURotationOperator, arr(e['angles']), struct)
                built.append(base_rot[j].T if e['k'] == 'rotT' else base_rot[j])
            else:
                built.append(must_not_raise('build', build, e))
        if any('same_as' in e for e in elems):
            classes.append('shared_rotation_object')
        # every operator and its transpose by value
        for e, o in zip(elems, built):
            want = apply_ref([e], kind, comps, adt)
            y = must_not_raise('mv:' + e['k'], o.mv, x)
            _compare(y, want, 'scalar' if e['k'] == 'pol' else kind, tol_for([e]), 'single:' + e['k'])
            if e['k'] in ('rot', 'rotT', 'hwp'):
                eT = {'rot': dict(e, k='rotT'), 'rotT': dict(e, k='rot'), 'hwp': e}[e['k']]
                yT = must_not_raise('T-mv:' + e['k'], o.T.mv, x)
                _compare(yT, apply_ref([eT], kind, comps, adt), kind, tol_for([e]), 'transpose:' + e['k'])
        chain = CompositionOperator(list(reversed(built))) if len(built) > 1 else built[0]
        want = apply_ref(elems, kind, comps, adt)
        out_kind = 'scalar' if recipe['pol'] else kind
        _compare(must_not_raise('chain-mv', chain.mv, x), want, out_kind, tol_for(elems), 'chain-value')
        red = must_not_raise('reduce', chain.reduce)
        _compare(must_not_raise('reduced-mv', red.mv, x), want, out_kind, tol_for(elems) * 2, 'reduced-chain-value')
        # reduction must not have modified the operands: the unreduced chain still gives the same result
        _compare(must_not_raise('chain-mv', chain.mv, x), want, out_kind, tol_for(elems), 'chain-value-after-reduce')
        nrot = sum(e['k'] in ('rot', 'rotT') for e in elems)
        nhwp = sum(e['k'] == 'hwp' for e in elems)
        generic = any(np.any(np.abs(np.mod(np.asarray(e['angles'], dtype=float), math.pi / 4)) > 1e-3) for e in elems if 'angles' in e)
        nontrivial = (kind != 'I' and generic) or (nrot >= 1 and nhwp >= 1)
        classes += ['chain', f'len:{min(len(elems), 8)}'] + (['with_pol'] if recipe['pol'] else [])
        if nrot >= 2:
            classes.append('rot_rot')
        if nrot and nhwp:
            classes.append('rot_hwp')
        return {'nontrivial': bool(nontrivial), 'classes': classes}

    ang = recipe['angles']
    kw = {}
    if ang is not None:
        kw['angles'] = arr(ang)
        pristine = np.array(np.asarray(kw['angles']), copy=True)
    npdt = np.float32 if dt == 'float32' else np.float64
    if recipe['what'] == 'hwp_create':
        op = must_not_raise('HWPOperator.create', HWPOperator.create, shape, npdt, kind, **kw)
        elems = [{'k': 'hwp'}] if ang is None else [{'k': 'rot', 'angles': ang}, {'k': 'hwp'}, {'k': 'rotT', 'angles': ang}]
        out_kind = kind
    elif recipe['what'] == 'pol_create':
        op = must_not_raise('LinearPolarizerOperator.create', LinearPolarizerOperator.create, shape, npdt, kind, **kw)
        elems = [{'k': 'pol'}] if ang is None else [{'k': 'rot', 'angles': ang}, {'k': 'pol'}]
        out_kind = 'scalar'
    else:
        op = must_not_raise('QURotationOperator.create', QURotationOperator.create, shape, npdt, kind, **kw)
        elems = [{'k': 'rot', 'angles': ang}]
        out_kind = kind
    if not St.same_structure(S, op.in_structure()):
        raise Violation('factory-structure', f'{recipe["what"]}: in_structure {St.describe(op.in_structure())}')
    want = apply_ref(elems, kind, comps, adt)
    _compare(must_not_raise('factory-mv', op.mv, x), want, out_kind, tol_for(elems), 'factory-value:' + recipe['what'])
    red = must_not_raise('factory-reduce', op.reduce)
    _compare(must_not_raise('factory-reduced-mv', red.mv, x), want, out_kind, tol_for(elems) * 2, 'factory-reduced-value:' + recipe['what'])
    _compare(must_not_raise('factory-mv', op.mv, x), want, out_kind, tol_for(elems), 'factory-value-after-reduce:' + recipe['what'])
    if ang is not None:
        # the caller's angle array is used again for another operator: it still holds the caller's angles
        again = must_not_raise('QURotationOperator.create', QURotationOperator.create, shape, npdt, kind, angles=kw['angles'])
        _compare(must_not_raise('factory-mv', again.mv, x), apply_ref([{'k': 'rot', 'angles': ang}], kind, comps, adt), kind,
                 tol_for([{'k': 'rot', 'angles': ang}]), 'angles-reused-after:' + recipe['what'])
        if not np.array_equal(np.asarray(kw['angles']), pristine):
            raise Violation('angles-modified-by:' + recipe['what'], 'the angle array passed to the factory was modified in place')
        classes.append('angles_reused')
    generic = ang is not None and np.any(np.abs(np.mod(np.asarray(ang, dtype=float), math.pi / 4)) > 1e-3)
    classes += ['factory:' + recipe['what'], 'with_angles' if ang is not None else 'without_angles']
    return {'nontrivial': bool(kind != 'I' and generic), 'classes': classes}
