"""C14 - einsum block operator and its rewritten-subscript transpose agree."""

from __future__ import annotations

import itertools
import math

import numpy as np
from hypothesis import strategies as st

from .. import structs as St
from ..common import Violation, must_not_raise

PROP = 'C14'
EXAMPLES = {'quick': 110, 'thorough': 2500}
RULE = (
    'Layer 1 (sweep, exhaustive within the grammar): every string L,R->O with L a sequence of 2-3 letters of {h,i,j,k} '
    '(repetitions allowed), R and O sequences of 1-2 letters, each side with an optional "..." at ANY position '
    '(2 217 984 strings). For each, furax\'s subscript rewriting either raises (allowed outside the must-'
    'accept class) or returns s_T, which must satisfy <einsum(s,B,x),y> == <x,einsum(s_T,B,y)> exactly on integer '
    'arrays; strings in the must-accept class (one contracted letter c in L and R only, one free letter f in L and O '
    'only, nothing else summed, O == R with c replaced by f) must be transposed. The JAX-level operator (mv, T.mv, '
    'swapped structures) is executed for every accepted string in thorough and a seeded 10% in quick. '
    'Layer 2 (Hypothesis): must-accept strings with random letter order / batch letters / ellipsis placement / '
    'spaces, distinct sizes per letter, ellipsis rank 0-2, shared or per-leaf blocks, multi-leaf inputs; oracle '
    'np.einsum and the adjoint identity. non-trivial = letters not in canonical ij order, or an ellipsis, or a batch '
    'letter. distinct = distinct strings / recipes.'
    ' Also (layer 2): the leaves of one pytree may have different dtypes (promotion judged per leaf).'
    ' Also (layer 2): pytrees of 9 and 12 leaves.'
    ' Also (layer 2): complex (Gaussian-integer) block values on real leaves, transpose = unconjugated adjoint.'
)
ASSUMPTIONS = [
    'numpy.einsum is the specification of einsum; alphabet {h,i,j,k}; explicit mode with exactly two operands',
    'any exception counts as rejection of a string outside the must-accept class',
]

LETTERS = 'hijk'
SIZE = {'h': 2, 'i': 3, 'j': 4, 'k': 5}
ELL = (2,)


def _sides(n_lo, n_hi):
    """Letter sequences WITH repetition over {h,i,j,k}, with an optional '...' at any position."""
    out = []
    for n in range(n_lo, n_hi + 1):
        for p in itertools.product(LETTERS, repeat=n):
            w = ''.join(p)
            out.append(w)
            for pos in range(n + 1):
                out.append(w[:pos] + '...' + w[pos:])
    return out


def all_strings():
    Ls = _sides(2, 3)
    Rs = _sides(1, 2)
    for l in Ls:
        for r in Rs:
            for o in Rs:
                yield f'{l},{r}->{o}'


def _shape(side, ell=ELL):
    if '...' in side:
        a, b = side.split('...')
        return tuple(SIZE[c] for c in a) + tuple(ell) + tuple(SIZE[c] for c in b)
    return tuple(SIZE[c] for c in side)


def parse(s):
    l, rest = s.replace(' ', '').split(',')
    r, o = rest.split('->')
    return l, r, o


def numpy_accepts(s):
    l, r, o = parse(s)
    try:
        y = np.einsum(s, np.zeros(_shape(l)), np.zeros(_shape(r)))
    except Exception:  # noqa: BLE001
        return None
    return y.shape


def must_accept(s) -> bool:
    return _must_accept_form(s) and numpy_accepts(s) is not None


def _must_accept_form(s) -> bool:
    l, r, o = parse(s)
    L, R, O = l.replace('...', ''), r.replace('...', ''), o.replace('...', '')
    if len(set(L)) != len(L) or len(set(R)) != len(R) or len(set(O)) != len(O):
        return False
    c = [x for x in L if x in R and x not in O]
    f = [x for x in L if x in O and x not in R]
    if len(c) != 1 or len(f) != 1:
        return False
    summed = [x for x in set(L) | set(R) if x not in O]
    if summed != c:
        return False
    if any(x not in L and x not in R for x in O):
        return False
    return o == r.replace(c[0], f[0])


def _ints(shape, seed):
    n = math.prod(shape)
    return (((np.arange(n) * (2 * seed + 3) + seed) % 7) - 3).astype(float).reshape(shape)


def adjoint_ok(s, sT, seed=1):
    l, r, o = parse(s)
    B, x = _ints(_shape(l), seed), _ints(_shape(r), seed + 1)
    yshape = numpy_accepts(s)
    y = _ints(yshape, seed + 2)
    Ax = np.einsum(s, B, x)
    ATy = np.einsum(sT, B, y)
    if ATy.shape != x.shape:
        return False
    return float((Ax * y).sum()) == float((x * ATy).sum())


def sweep(tier, mode, shard, nshards):
    """Every string of the grammar is submitted to furax' rewriting here; the ones it rejects outside the
    must-accept class need no further judgement (rejection is allowed there) and are only counted."""
    if mode != 'x32':
        return
    from furax._base.dense import DenseBlockDiagonalOperator as D

    n = rejected = 0
    for idx, s in enumerate(all_strings()):
        if idx % nshards != shard:
            continue
        n += 1
        try:
            D._get_transposed_subscripts(s)
            accepted = True
        except Exception:  # noqa: BLE001
            accepted = False
        if not accepted and not must_accept(s):
            rejected += 1
            continue
        h = sum(ord(ch) * (i + 1) for i, ch in enumerate(s))
        yield {'kind': 'string', 's': s, 'jax': tier == 'thorough' or (h + 7) % 10 == 0}
    yield {'__sweep_meta__': True, 'exhaustive': True,
           'extra': {'grammar_strings_enumerated': n, 'rejected_outside_must_accept_class': rejected}}


# ---------------------------------------------------------------------------------------------
# layer 2


@st.composite
def op_case(draw, mode):
    letters = list(draw(st.permutations(list(LETTERS))))
    c, f = letters[0], letters[1]
    nb = draw(st.integers(0, 2))
    batch = letters[2: 2 + nb]
    L = list(draw(st.permutations([c, f] + batch)))
    Rl = list(draw(st.permutations([c] + batch)))
    lell = draw(st.sampled_from(['', 'start', 'end']))
    rell = draw(st.sampled_from(['', 'start', 'end']))
    if lell and not rell:
        rell = lell  # an ellipsis only in the blocks cannot be transposed by rewriting: not in the must-accept class
    sizes = dict(zip(letters, draw(st.permutations([2, 3, 4, 5]))))
    erank = draw(st.integers(0, 2)) if rell else 0
    eshape = tuple(draw(st.integers(1, 3)) for _ in range(erank))

    def side(ls, e):
        w = ''.join(ls)
        return ('...' + w) if e == 'start' else (w + '...') if e == 'end' else w

    l, r = side(L, lell), side(Rl, rell)
    o = r.replace(c, f)
    s = f'{l},{r}->{o}'
    if draw(st.booleans()):
        s = s.replace(',', ' , ').replace('->', ' -> ')

    def shp(ls, e, es):
        sh = tuple(sizes[x] for x in ls)
        return (es + sh) if e == 'start' else (sh + es) if e == 'end' else sh

    dt = draw(st.sampled_from(['float32', 'float64', 'int32'])) if mode == 'x64' else draw(st.sampled_from(['float32', 'float32', 'int32']))
    nleaves = draw(st.sampled_from([1, 1, 2, 3, 1, 1, 2, 3, 9, 12]))  # (9, 12: a pytree of detectors / of frequency maps)
    per_leaf = nleaves > 1 and draw(st.booleans())
    default = draw(st.integers(0, 3)) == 0
    if default:
        # the documented default subscripts, 2-d blocks, leaves of rank 1-4
        c, f, L, Rl, lell, rell = 'j', 'i', ['i', 'j'], ['j'], 'end', 'end'
        s = 'ij...,j...->i...'
        erank = draw(st.integers(0, 3))
        eshape = tuple(draw(st.integers(1, 3)) for _ in range(erank))
    leaves = []
    blocks_shapes = []
    for t in range(nleaves):
        es = eshape if (t == 0 or not rell) else tuple(draw(st.integers(1, 3)) for _ in range(draw(st.integers(0, 3 if default else 2))))
        sz = dict(sizes)
        if per_leaf and t > 0:
            # per-leaf blocks may have their own sizes (e.g. the complementary shape of the first leaf)
            how = draw(st.sampled_from(['same', 'swap', 'other']))
            if how == 'swap':
                sz[c], sz[f] = sizes[f], sizes[c]
            elif how == 'other':
                sz = dict(zip(letters, draw(st.permutations([2, 3, 4, 5]))))
        if lell and not per_leaf:
            es = eshape  # shared blocks with an ellipsis: the batch dims of all leaves agree
        xshape = tuple(sz[x_] for x_ in Rl)
        xshape = (es + xshape) if rell == 'start' else (xshape + es) if rell == 'end' else xshape
        leaves.append({'xshape': list(xshape), 'eshape': list(es)})
        # batch dims of the blocks: broadcastable TO the leaf's batch dims without enlarging them
        bes = ()
        if lell:
            form = draw(st.sampled_from(['none', 'none', 'full', 'ones', 'tail'])) if not default else 'none'
            if form == 'full':
                bes = tuple(es)
            elif form == 'ones':
                bes = tuple(d if draw(st.booleans()) else 1 for d in es)
            elif form == 'tail' and rell == 'start' and lell == 'start':
                bes = tuple(es[draw(st.integers(0, len(es))):])
        bshape = tuple(sz[x_] for x_ in L)
        bshape = (bes + bshape) if lell == 'start' else (bshape + bes) if lell == 'end' else bshape
        blocks_shapes.append(list(bshape))
    if not per_leaf:
        blocks_shapes = blocks_shapes[:1]
    layout = 'leaf' if nleaves == 1 else draw(st.sampled_from(['tuple', 'list', 'dict'] if nleaves <= 3 else ['tuple', 'list']))
    # leaves of one pytree may have different dtypes (every leaf is contracted on its own, with its own promotion)
    ldts = None
    if nleaves > 1 and draw(st.integers(0, 2)) == 0:
        pool_ = ['float32', 'int32'] + (['float64'] if mode == 'x64' else [])
        ldts = [draw(st.sampled_from(pool_)) for _ in range(nleaves)]
    # complex block values (a complex response on real data): the transpose is the plain, unconjugated adjoint
    cblocks = draw(st.integers(0, 4)) == 0
    return {'kind': 'op', 'cblocks': cblocks, 'ldts': ldts, 's': s, 'default': default and draw(st.booleans()), 'half_blocks': draw(st.booleans()), 'leaves': leaves, 'blocks_shapes': blocks_shapes, 'per_leaf': per_leaf,
            'layout': layout, 'dtype': dt, 'seed': draw(st.integers(0, 50))}


def strategy(tier, mode):
    return op_case(mode)


def _tree(layout, items):
    if layout == 'leaf':
        return items[0]
    if layout == 'dict':
        keys = ['b', 'a', 'c'][: len(items)]
        return {'t': 'dict', 'items': [[k, it] for k, it in zip(keys, items)]}
    return {'t': layout, 'items': items}


def check(recipe, mode):
    import jax
    import jax.numpy as jnp

    from furax._base.dense import DenseBlockDiagonalOperator as D

    s = recipe['s']
    if recipe['kind'] == 'string':
        ma = must_accept(s)
        classes = ['must_accept' if ma else 'outside_must_accept']
        try:
            sT = D._get_transposed_subscripts(s)
        except Exception as e:  # noqa: BLE001
            if ma:
                raise Violation('must-accept-rejected', f'{s!r}: {type(e).__name__}: {e}')
            return {'nontrivial': False, 'classes': classes + ['rejected:' + type(e).__name__]}
        classes.append('accepted')
        if numpy_accepts(s) is None:
            # not a valid einsum string at all (e.g. a repeated output letter): the operator cannot be applied either
            return {'nontrivial': False, 'classes': classes + ['not_a_valid_einsum']}
        try:
            ok = adjoint_ok(s, sT, 1) and adjoint_ok(s, sT, 4)
        except Exception as e:  # noqa: BLE001  (the rewritten subscripts do not even fit the block array)
            raise Violation('wrong-transpose', f'{s!r} -> {sT!r} cannot be applied to the same blocks: {type(e).__name__}: {str(e)[:120]}')
        if not ok:
            raise Violation('wrong-transpose', f'{s!r} -> {sT!r} is not the adjoint')
        if recipe.get('jax'):
            l, r, o = parse(s)
            B, x = _ints(_shape(l), 2), _ints(_shape(r), 3)
            yshape = numpy_accepts(s)
            y = _ints(yshape, 5)
            op = must_not_raise('construct', D, jnp.asarray(B, jnp.float32), jax.ShapeDtypeStruct(x.shape, jnp.float32), s)
            got = np.asarray(must_not_raise('mv', op.mv, jnp.asarray(x, jnp.float32)), dtype=float)
            if got.shape != tuple(yshape) or not np.array_equal(got, np.einsum(s, B, x)):
                raise Violation('mv-value', f'{s!r}: op(x) != np.einsum')
            T = must_not_raise('transpose', lambda: op.T)
            if tuple(T.in_structure().shape) != tuple(yshape) or tuple(T.out_structure().shape) != x.shape:
                raise Violation('T-structure', f'{s!r}: structures of the transpose are not swapped')
            gt = np.asarray(must_not_raise('T-mv', T.mv, jnp.asarray(y, jnp.float32)), dtype=float)
            if not np.array_equal(gt, np.einsum(sT, B, y)):
                raise Violation('T-mv-value', f'{s!r}: op.T(y) != einsum with the rewritten subscripts')
            classes.append('jax_executed')
        l, r, o = parse(s)
        nontrivial = ('...' in s) or len(l) - 3 * ('...' in l) >= 3 or (l.replace('...', ''), r.replace('...', ''), o.replace('...', '')) != ('ij', 'j', 'i')
        return {'nontrivial': True if nontrivial else False, 'classes': classes}

    # layer 2: operator level
    dt = recipe['dtype']
    leaves = recipe['leaves']
    ldts = recipe.get('ldts') or [dt] * len(leaves)
    S = _tree(recipe['layout'], [St.leaf(lf['xshape'], d_) for lf, d_ in zip(leaves, ldts)])
    order = sorted(range(len(leaves)), key=lambda t: ['b', 'a', 'c'][t]) if recipe['layout'] == 'dict' else list(range(len(leaves)))
    Bs = [_ints(tuple(bs), recipe['seed'] + 3 * t) for t, bs in enumerate(recipe['blocks_shapes'])]
    cb = bool(recipe.get('cblocks'))
    bdt = 'complex64' if cb else 'float32'
    if cb:
        # Gaussian integers: still exact in complex64 / complex128
        Bs = [b + 1j * _ints(b.shape, recipe['seed'] + 3 * t + 101) for t, b in enumerate(Bs)]
    xs = [_ints(tuple(lf['xshape']), recipe['seed'] + 11 + t) for t, lf in enumerate(leaves)]
    if recipe['per_leaf']:
        cont = _tree(recipe['layout'], [{'t': 'leaf', 'shape': list(b.shape), 'dtype': bdt} for b in Bs])
        blocks = St.build_value(cont, [Bs[t] for t in order])
    else:
        blocks = jnp.asarray(Bs[0], bdt)
    if recipe.get('default'):
        op = must_not_raise('construct', D, blocks, St.to_jax(S))
    else:
        op = must_not_raise('construct', D, blocks, St.to_jax(S), s)
    sc = s.replace(' ', '')
    if recipe.get('half_blocks'):
        Bs = [b + 0.5 for b in Bs]  # non-integer coefficients: an integer leaf must be promoted, not the blocks truncated
        blocks = St.build_value(cont, [Bs[t] for t in order]) if recipe['per_leaf'] else jnp.asarray(Bs[0], bdt)
        op = D(blocks, St.to_jax(S)) if recipe.get('default') else D(blocks, St.to_jax(S), s)
    want = [np.einsum(sc, Bs[t] if recipe['per_leaf'] else Bs[0], xs[t]) for t in range(len(leaves))]
    odts = ['float32' if d_ == 'int32' else d_ for d_ in ldts]  # einsum of float32 blocks with an int32 leaf is float32
    if cb:
        odts = ['complex128' if d_ == 'float64' else 'complex64' for d_ in ldts]
    out_S = _tree(recipe['layout'], [St.leaf(w.shape, d_) for w, d_ in zip(want, odts)])
    declared = must_not_raise('out_structure', op.out_structure)
    if not St.same_structure(out_S, declared):
        raise Violation('out_structure', f'{s!r}: declared {St.describe(declared)}; numpy gives {St.describe(St.to_jax(out_S))}')
    x = St.build_value(S, [xs[t] for t in order])
    y = must_not_raise('mv', op.mv, x)
    got = St.flat_of_value(y)
    w = np.concatenate([want[t].reshape(-1) for t in order])
    if not St.same_structure(out_S, y) or not np.array_equal(got, w):
        raise Violation('mv-value', f'{s!r}: op(x) != np.einsum per leaf')
    T = must_not_raise('transpose', lambda: op.T)
    # (for integer leaves the adjoint necessarily lives in the floating dtype of the output: shapes are compared, the
    # input dtype cannot come back)
    S_back = _tree(recipe['layout'], [St.leaf(lf['xshape'], d_) for lf, d_ in zip(leaves, odts)])
    if not St.same_structure(out_S, T.in_structure()) or not St.same_structure(S_back, T.out_structure()):
        raise Violation('T-structure', f'{s!r}: structures of the transpose are not swapped')
    ys = [_ints(wt.shape, recipe['seed'] + 23 + t) for t, wt in enumerate(want)]
    if cb:
        ys = [y_ + 1j * _ints(y_.shape, recipe['seed'] + 57 + t) for t, y_ in enumerate(ys)]
    z = must_not_raise('T-mv', T.mv, St.build_value(out_S, [ys[t] for t in order]))
    if not St.same_structure(S_back, z):
        raise Violation('T-mv-structure', f'{s!r}: op.T(y) has structure {St.describe(z)}')
    # (bilinear pairing, no conjugation: .T is the transpose, also for complex blocks)
    lhs = complex(sum((want[t] * ys[t]).sum() for t in range(len(leaves))))
    rhs = complex(St.flat_of_value(z) @ np.concatenate([xs[t].reshape(-1) for t in order]))
    if lhs != rhs:
        raise Violation('adjoint-identity', f'{s!r}: <Ax,y>={lhs} but <x,A^T y>={rhs}')
    TT = must_not_raise('transpose-twice', lambda: T.T)
    if not np.array_equal(St.flat_of_value(TT.mv(x)), w):
        raise Violation('TT-value', f'{s!r}: op.T.T differs from op')
    l, r, o = parse(s)
    classes = ['per_leaf_blocks' if recipe['per_leaf'] else 'shared_blocks', f'leaves:{len(leaves)}']
    if '...' in l:
        classes.append('ellipsis_in_blocks')
    if '...' in r:
        classes.append('ellipsis_in_leaf')
    if len(l.replace('...', '')) > 2:
        classes.append('batch_letter')
    if ' ' in s:
        classes.append('spaces')
    if cb:
        classes.append('complex_blocks')
    if 'int32' in ldts:
        classes.append('integer_leaves')
    if len(set(ldts)) > 1:
        classes.append('mixed_leaf_dtypes')
    if sc == 'ij...,j...->i...':
        classes.append('default_subscripts')
    nontrivial = '...' in s or len(l.replace('...', '')) > 2 or l.replace('...', '')[:2] != 'ij'
    return {'nontrivial': nontrivial, 'classes': classes}
