"""C11 - diagonal operators multiply along the requested axes."""

from __future__ import annotations

import itertools
import math

import numpy as np
from hypothesis import strategies as st

from .. import ops
from .. import structs as St
from ..common import Violation, must_not_raise, must_raise

PROP = 'C11'
EXAMPLES = {'quick': 150, 'thorough': 4000}
RULE = (
    'Specifications (leaf shapes of rank 0-4 incl. pytrees whose leaves have different ranks, value arrays of rank '
    '1-3, axis_destination as non-negative int, negative int, or explicit tuple/list in any order with mixed signs, '
    'axes beyond the leaf rank on the left and right, both classes) are drawn by Hypothesis with a bias towards '
    'broadcast-compatible lengths, and enumerated exhaustively over a small box (sweep). The numpy oracle lays the '
    'values on the destination axes by explicit index loops (written from the docstring, independent of moveaxis '
    'code) and decides legality: duplicated axes after normalisation, incompatible lengths, a shape change for the '
    'strict class, 0-d values and pytree values must raise ValueError at construction, everything else must be '
    'accepted and op(x), out_structure() and (strict class) as_matrix() must equal the oracle exactly; building '
    'twice, permuting dict insertion order and applying to a leaf alone or inside a larger pytree give identical '
    'results. non-trivial = value rank >= 2, or unsorted axes, or padding on either side, or leaves of >= 2 ranks.'
)
ASSUMPTIONS = [
    'the number of axes in a tuple equals the rank of the values (the docstring requires it; other counts are not generated)',
    'values float32 (and float64 with x64 on); integer-valued inputs so that float32 arithmetic is exact',
]


@st.composite
def spec(draw, mode):
    dt = draw(st.sampled_from(['float32', 'float64', 'int32'])) if mode == 'x64' else draw(st.sampled_from(['float32', 'float32', 'int32']))
    nd = draw(st.integers(0, 4))
    dims_pool = [1, 2, 3, 4, 5]
    shape = []
    budget = 48
    for _ in range(nd):
        d = draw(st.sampled_from([x for x in dims_pool if x <= max(1, budget)]))
        shape.append(d)
        budget //= d
    k = draw(st.integers(1, 3))
    as_int = draw(st.integers(0, 2)) == 0
    lo, hi = -(nd + 2), nd + 1
    if as_int:
        a = draw(st.integers(lo, hi))
        axis = a
        axes = ops.diag_axes(k, a)
    else:
        pool = list(range(lo, hi + 1))
        if draw(st.integers(0, 5)) == 0:
            axes = tuple(draw(st.sampled_from(pool)) for _ in range(k))  # may contain duplicates
        else:
            axes = tuple(list(draw(st.permutations(pool)))[:k])
        axis = list(axes)
    # value lengths: mostly compatible with the leaf
    vshape = []
    for a in axes:
        an = a if a >= 0 else nd + a
        if 0 <= an < nd:
            opts = [shape[an], shape[an], 1] + ([2] if shape[an] == 1 else []) + ([draw(st.sampled_from([2, 3]))] if draw(st.integers(0, 7)) == 0 else [])
        else:
            opts = [1, 2, 3]
        vshape.append(draw(st.sampled_from(opts)))
    cnt = math.prod(vshape)
    vals = draw(st.lists(st.sampled_from([-3, -2, -1, 1, 2, 3, 0.5, -0.25, 0, 4]), min_size=cnt, max_size=cnt))
    vals = np.asarray(vals, dtype=float).reshape(vshape).tolist()
    # pytree: other leaves derived from the first one
    layout = draw(st.sampled_from(['leaf', 'leaf', 'leaf', 'tuple', 'dict', 'list', 'stokes']))
    leaves = [St.leaf(shape, dt)]
    if layout in ('tuple', 'dict', 'list'):
        for _ in range(draw(st.integers(1, 2))):
            sh = list(shape)
            how = draw(st.sampled_from(['same', 'lead+', 'lead-', 'trail+', 'other']))
            if how == 'lead+':
                sh = [draw(st.integers(1, 2))] + sh
            elif how == 'lead-' and sh:
                sh = sh[1:]
            elif how == 'trail+':
                sh = sh + [draw(st.integers(1, 2))]
            elif how == 'other':
                sh = [draw(st.integers(1, 3)) for _ in range(draw(st.integers(0, 3)))]
            leaves.append(St.leaf(sh, draw(st.sampled_from(['float32', 'float64'])) if mode == 'x64' else 'float32'))
    if layout == 'leaf':
        S = leaves[0]
    elif layout == 'stokes':
        S = St.stokes(draw(st.sampled_from(['QU', 'IQU', 'IQUV'])), shape, dt)
    elif layout == 'dict':
        keys = list(draw(st.permutations(['b', 'a', 'c'])))[: len(leaves)]
        S = {'t': 'dict', 'items': [[k_, l] for k_, l in zip(keys, leaves)]}
    else:
        S = {'t': layout, 'items': leaves}
    return {'S': S, 'vals': vals, 'axis': axis, 'cls': draw(st.sampled_from(['diag', 'bdiag'])),
            'as_list': draw(st.booleans()),
            # the values may be wider than the leaves (fractional values on integer leaves, float64 on float32):
            # the product follows NumPy/JAX promotion
            'vdtype': draw(st.sampled_from(['float32', 'float32', 'float64'])) if mode == 'x64' else 'float32',
            'special': draw(st.sampled_from([None] * 12 + ['scalar_values', 'pytree_values'])),
            'probe': draw(st.lists(st.integers(0, 1000), min_size=6, max_size=6))}


def strategy(tier, mode):
    return spec(mode)


def sweep(tier, mode, shard, nshards):
    """Exhaustive box: every leaf shape, value shape and axis specification within small bounds."""
    if mode != 'x32':
        return
    dims = [1, 2] if tier == 'quick' else [1, 2, 3]
    maxrank = 2 if tier == 'quick' else 3
    shapes = [list(s) for r in range(0, maxrank + 1) for s in itertools.product(dims, repeat=r)]
    vshapes = [list(s) for r in (1, 2) for s in itertools.product(dims, repeat=r)]
    idx = 0
    for shape in shapes:
        nd = len(shape)
        for vs in vshapes:
            k = len(vs)
            rng = range(-(nd + 1), nd + 1)
            specs = [a for a in rng] + [list(t) for t in itertools.product(rng, repeat=k)]
            for axis in specs:
                for cls in ('diag', 'bdiag'):
                    idx += 1
                    if idx % nshards != shard:
                        continue
                    vals = (np.arange(1, math.prod(vs) + 1, dtype=float).reshape(vs) * np.where(np.arange(math.prod(vs)).reshape(vs) % 3 == 2, -1, 1)).tolist()
                    yield {'S': St.leaf(shape, 'float32'), 'vals': vals, 'axis': axis, 'cls': cls, 'as_list': False,
                           'vdtype': 'float32', 'special': None, 'probe': [idx % 7, 3, 5, 1, 2, 4]}
    yield {'__sweep_meta__': True, 'exhaustive': True,
           'extra': {'sweep_box': f'leaf ranks 0..{maxrank} dims {dims}; value ranks 1..2 dims {dims}; every int axis and every axis tuple in [-(rank+1), rank]; both classes'}}


def _oracle(recipe):
    """Per leaf: output array for an integer input, or ValueError if the spec is illegal."""
    vals = np.asarray(recipe['vals'], dtype=np.float64)
    axis = recipe['axis']
    axis = tuple(axis) if isinstance(axis, list) else axis
    strict = recipe['cls'] == 'diag'
    outs = []
    xs = []
    for li, (sh, dt) in enumerate(St.leaves(recipe['S'])):
        n = math.prod(sh)
        p = recipe['probe']
        x = np.array([((p[(i + li) % 6] + 2 * i + li) % 9) - 4 for i in range(n)], dtype=float).reshape(sh)
        xs.append(x)
        outs.append(ops.diag_apply(vals, axis, x, strict))  # raises ValueError when illegal
    return xs, outs


def check(recipe, mode):
    import jax
    import jax.numpy as jnp

    from furax._base.diagonal import BroadcastDiagonalOperator, DiagonalOperator

    cls = DiagonalOperator if recipe['cls'] == 'diag' else BroadcastDiagonalOperator
    S = recipe['S']
    axis = recipe['axis']
    if isinstance(axis, list):
        axis = list(axis) if recipe.get('as_list') else tuple(axis)
    vals = ops.jarr(recipe['vals'], recipe['vdtype'])
    classes = ['class:' + recipe['cls']]
    if recipe.get('special') == 'scalar_values':
        must_raise('scalar-values', cls, jnp.asarray(2.0), axis_destination=-1, in_structure=St.to_jax(S), exc=(ValueError,))
        return {'nontrivial': False, 'classes': ['illegal:scalar_values']}
    if recipe.get('special') == 'pytree_values':
        must_raise('pytree-values', cls, {'a': vals, 'b': vals}, axis_destination=axis, in_structure=St.to_jax(S), exc=(ValueError,))
        return {'nontrivial': False, 'classes': ['illegal:pytree_values']}
    try:
        xs, outs = _oracle(recipe)
        legal = True
    except ValueError as e:
        legal = False
        why = str(e)
    if not legal:
        must_raise(f'illegal-spec:{recipe["cls"]}', cls, vals, axis_destination=axis, in_structure=St.to_jax(S), exc=(ValueError,))
        return {'nontrivial': True, 'classes': classes + ['illegal:' + why.split()[0]]}
    op = must_not_raise('construct', cls, vals, axis_destination=axis, in_structure=St.to_jax(S))
    # dtype of each product: promotion of the (strongly typed) values with the leaf
    prom = [str(np.dtype(jnp.result_type(jnp.dtype(recipe['vdtype']), jnp.dtype(dt_)))) for _, dt_ in St.leaves(S)]
    wider = any(p_ != dt_ for p_, (_, dt_) in zip(prom, St.leaves(S)))
    out_S = St.replace_leaves(S, [(o.shape, p_) for o, p_ in zip(outs, prom)])
    declared = must_not_raise('out_structure', op.out_structure)
    # (the strict class is declared square: with values wider than a leaf its declared dtype is the leaf's - parameters
    # wider than the data are outside C05's domain - so only tree and shapes are compared in that case)
    decl_S = out_S if not (wider and recipe['cls'] == 'diag') else St.replace_leaves(
        S, [(o.shape, dt_) for o, (_, dt_) in zip(outs, St.leaves(S))])
    if not St.same_structure(decl_S, declared):
        raise Violation('out_structure', f'declared {St.describe(declared)}; expected {St.describe(St.to_jax(decl_S))}')
    x = St.build_value(S, xs)
    y = must_not_raise('mv', op.mv, x)
    if not St.same_structure(out_S, y):
        raise Violation('mv-structure', f'returned {St.describe(y)}; expected {St.describe(St.to_jax(out_S))}')
    got = St.flat_of_value(y)
    want = np.concatenate([o.reshape(-1) for o in outs]) if outs else np.zeros(0)
    if not np.array_equal(got, want):
        raise Violation('mv-value', f'got {got[:12]} want {want[:12]} (vals shape {np.shape(recipe["vals"])}, axis {recipe["axis"]}, leaf shapes {[s for s, _ in St.leaves(S)]})')
    # strict class: dense form = diagonal of the broadcast values in leaf order
    if recipe['cls'] == 'diag' and not wider:
        # (with values wider than a leaf the strict class - declared square - builds its dense form in the leaf dtype:
        # parameters wider than the data are outside the domain in which dense forms are judged)
        M = np.asarray(must_not_raise('as_matrix', op.as_matrix), dtype=float)
        d = np.concatenate([ops.diag_apply(np.asarray(recipe['vals'], dtype=float), tuple(recipe['axis']) if isinstance(recipe['axis'], list) else recipe['axis'],
                                           np.ones(sh), True).reshape(-1) for sh, _ in St.leaves(S)])
        if M.shape != (d.size, d.size) or not np.array_equal(M, np.diag(d)):
            raise Violation('as_matrix', f'as_matrix() is not diag of the broadcast values: diag {np.diag(M)[:12]} want {d[:12]}')
    # depends on nothing else: second build, and each leaf alone
    op2 = cls(vals, axis_destination=axis, in_structure=St.to_jax(S))
    if not np.array_equal(St.flat_of_value(op2.mv(x)), got):
        raise Violation('not-deterministic', 'building the operator twice gives different results')
    ls = St.leaves(S)
    if len(ls) >= 2 and S['t'] != 'stokes':
        li = recipe['probe'][0] % len(ls)
        sh, dt = ls[li]
        solo = cls(vals, axis_destination=axis, in_structure=St.to_jax(St.leaf(sh, dt)))
        ys = np.asarray(solo.mv(jnp.asarray(xs[li], dtype=dt)), dtype=float)
        if not np.array_equal(ys, outs[li]):
            raise Violation('depends-on-other-leaves', f'leaf {li} alone gives a different result than inside the pytree')
        classes.append('leaf_alone_compared')
        if S['t'] == 'dict':
            S2 = {'t': 'dict', 'items': list(reversed(S['items']))}
            op3 = cls(vals, axis_destination=axis, in_structure=St.to_jax(S2))
            if not np.array_equal(St.flat_of_value(op3.mv(x)), got):
                raise Violation('depends-on-dict-order', 'dict insertion order changes the result')
    axes = ops.diag_axes(np.ndim(recipe['vals']), tuple(recipe['axis']) if isinstance(recipe['axis'], list) else recipe['axis'])
    nds = [len(sh) for sh, _ in ls]
    norm = [[a if a >= 0 else nd + a for a in axes] for nd in nds]
    padded = any(min(n) < 0 or max(n) >= nd for n, nd in zip(norm, nds))
    unsorted_ = any(list(n) != sorted(n) for n in norm)
    nontrivial = np.ndim(recipe['vals']) >= 2 or unsorted_ or padded or len(set(nds)) >= 2
    if padded:
        classes.append('padding')
    if unsorted_:
        classes.append('unsorted_axes')
    if len(set(nds)) >= 2:
        classes.append('mixed_ranks')
    classes.append('int_axis' if isinstance(recipe['axis'], int) else 'tuple_axis')
    classes.append(f'vrank:{np.ndim(recipe["vals"])}')
    if wider:
        classes.append('values_wider_than_leaf')
    return {'nontrivial': bool(nontrivial), 'classes': classes}
