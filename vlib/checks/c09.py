"""C09 - all Toeplitz evaluation methods compute the same banded product."""

from __future__ import annotations

import math

import numpy as np
from hypothesis import strategies as st

from .. import ops
from ..common import Violation, must_not_raise, must_raise

PROP = 'C09'
EXAMPLES = {'quick': 16, 'thorough': 500}
BATCH = 8
RULE = (
    'Hypothesis draws configurations (n in [1,48] (<= 200 thorough), K in [1, n+4] so that K > n occurs, band values '
    'small dyadics incl. zeros and negatives, fft_size in {None, 2K-1, 2K, random in [2K-1, 6K], powers of two}, input '
    'batch shapes (), (b,), (b1,b2) with band batch shapes broadcastable to them, float32 in both modes and float64 '
    'with x64 on, band dtype equal to or narrower than the data) and, for each, runs ALL FOUR methods plus as_matrix on '
    'three integer inputs; plus invalid arguments (unknown method names incl. the documented-but-unlisted '
    'overlap_add, fft_size < 2K-1, fft_size with a non-overlap method) which must raise ValueError. Thorough adds an '
    'exhaustive sweep of the box n <= 12, K <= 14, every fft_size in [2K-1, 4K]. Oracle: T[i,j] = band[|i-j|] built by a '
    'double loop in float64, per batch row; dense/direct exact up to 4 ulp-scale, FFT methods within '
    '8 (log2 N + 4) eps sum|band| max|x|; as_matrix == block diagonal of the per-row T; op.T is op; output shape and '
    'dtype == input\'s. non-trivial = partial last block, or >= 2 blocks, or K > n, or K == 1, or fft_size == 2K-1, or '
    'a broadcast band batch.'
    ' Also: a second operator with the same layout and other band values (its own as_matrix and product); long inputs of 1000-9000 samples (around powers of two, exact multiples of the overlap-save step, odd FFT sizes) for the direct, fft and overlap_save methods against a matrix-free shift-and-add reference.'
)
ASSUMPTIONS = [
    'band batch shape broadcastable TO the input batch shape without enlarging it (class docstring)',
    'band dtype no wider than the data dtype; real floating dtypes float32/float64 only',
]

METHODS = ('dense', 'direct', 'fft', 'overlap_save')


@st.composite
def config(draw, tier, mode):
    nmax = 48 if tier == 'quick' else 200
    n = draw(st.one_of(st.integers(1, 12), st.integers(1, nmax)))
    K = draw(st.integers(1, min(n + 4, 40)))
    dt = draw(st.sampled_from(['float32', 'float64'])) if mode == 'x64' else 'float32'
    bdt = 'float32' if dt == 'float32' else draw(st.sampled_from(['float32', 'float64']))
    fkind = draw(st.sampled_from(['none', 'min', '2K', 'rand', 'pow2']))
    fft = {'none': None, 'min': 2 * K - 1, '2K': 2 * K, 'rand': draw(st.integers(2 * K - 1, 6 * K + 1)),
           'pow2': 2 ** draw(st.integers(math.ceil(math.log2(2 * K - 1)) if K > 1 else 0, math.ceil(math.log2(2 * K)) + 3))}[fkind]
    xb = draw(st.sampled_from([(), (), (2,), (3,), (2, 2), (1, 3), (2, 1)]))
    if math.prod(xb) * n > 400:
        xb = ()
    if xb:
        choices = [(), xb, tuple(1 for _ in xb), xb[-1:], (1,)]
        if len(xb) == 2:
            choices += [(1, xb[1]), (xb[0], 1)]
        bb = draw(st.sampled_from(choices))
    else:
        bb = ()
    cnt = math.prod(bb) * K
    band = draw(st.lists(st.sampled_from([0, 1, -1, 2, -2, 0.5, -0.5, 0.25, 3, 1.5]), min_size=cnt, max_size=cnt))
    band = np.asarray(band, dtype=float).reshape(tuple(bb) + (K,)).tolist()
    invalid = draw(st.sampled_from([None] * 9 + ['method', 'fft_small', 'fft_nonoverlap']))
    return {'n': n, 'K': K, 'dtype': dt, 'bdtype': bdt, 'fft_size': fft, 'xbatch': list(xb), 'band': band,
            'invalid': invalid, 'bad_method': draw(st.sampled_from(['overlap_add', 'FFT', 'direkt', '', 'overlap'])),
            'seed': draw(st.integers(0, 99))}


@st.composite
def long_config(draw, tier, mode):
    """Long inputs: lengths just below, at and above powers of two, exact multiples of the overlap-save step, a few
    thousand samples. Only the matrix-free methods (the dense forms would need n**2 entries)."""
    K = draw(st.sampled_from([1, 2, 3, 4, 5, 8, 16, 17, 40]))
    fft_default = int(2 ** (1 + math.ceil(math.log2(K)))) if K > 1 else 2
    fkind = draw(st.sampled_from(['none', 'none', '2K', 'pow2', 'odd']))
    fft = {'none': None, '2K': 2 * K, 'pow2': 4 * fft_default, 'odd': 2 * K + 1}[fkind]
    step = (fft or fft_default) - 2 * (K - 1)
    kind = draw(st.sampled_from(['near_pow2', 'near_pow2', 'multiple_of_step', 'multiple_of_step', 'any']))
    if kind == 'near_pow2':
        n = 2 ** draw(st.integers(10, 13)) + draw(st.integers(-2 * K - 1, 3))
    elif kind == 'multiple_of_step' and step >= 1:
        lo = -(-1000 // step)
        n = step * draw(st.integers(lo, lo + 6000 // step))
    else:
        n = draw(st.integers(1000, 9000))
    n = max(1, n)
    dt = draw(st.sampled_from(['float32', 'float64'])) if mode == 'x64' else 'float32'
    band = [draw(st.sampled_from([1, -1, 2, -2, 0.5, -0.5, 0.25, 3, 1.5])) for _ in range(K)]
    return {'n': n, 'K': K, 'dtype': dt, 'bdtype': dt, 'fft_size': fft, 'xbatch': [], 'band': band, 'invalid': None,
            'bad_method': 'x', 'seed': draw(st.integers(0, 99)), 'only': ['fft', 'overlap_save', 'direct'], 'long': True}


def strategy(tier, mode):
    c = config(tier, mode)
    lc = long_config(tier, mode)
    return st.integers(0, 5).flatmap(lambda i: lc if i == 0 else c)


def _toeplitz_apply_shifts(band, x):
    """Matrix-free reference for one row: y[i] = band[0] x[i] + sum_k band[k] (x[i-k] + x[i+k])."""
    band = np.asarray(band, dtype=np.float64)
    x = np.asarray(x, dtype=np.float64)
    n = x.shape[-1]
    y = band[0] * x
    for k in range(1, min(len(band), n)):
        y[k:] += band[k] * x[:-k]
        y[:-k] += band[k] * x[k:]
    return y


def sweep(tier, mode, shard, nshards):
    if tier != 'thorough' or mode != 'x32':
        return
    idx = 0
    for n in range(1, 13):
        for K in range(1, 15):
            for fft in range(2 * K - 1, 4 * K + 1):
                idx += 1
                if idx % nshards != shard:
                    continue
                band = [float(((3 * k + n) % 5) - 2) / (1 if k % 2 else 2) for k in range(K)]
                yield {'n': n, 'K': K, 'dtype': 'float32', 'bdtype': 'float32', 'fft_size': fft, 'xbatch': [],
                       'band': band, 'invalid': None, 'bad_method': 'x', 'seed': idx % 50, 'only': ['overlap_save']}
    yield {'__sweep_meta__': True, 'exhaustive': True,
           'extra': {'sweep_box': 'n in 1..12, K in 1..14, every fft_size in [2K-1, 4K], method overlap_save, float32, no batch'}}


def _x(shape, seed, t):
    n = math.prod(shape)
    return (((np.arange(n) * (2 * t + 3) + seed + 5 * t) % 9) - 4).astype(float).reshape(shape)


def check(recipe, mode):
    import jax
    import jax.numpy as jnp

    from furax.operators.toeplitz import SymmetricBandToeplitzOperator as T

    n, K = recipe['n'], recipe['K']
    dt, bdt = recipe['dtype'], recipe['bdtype']
    xshape = tuple(recipe['xbatch']) + (n,)
    band_np = np.asarray(recipe['band'], dtype=float)
    band = jnp.asarray(band_np, dtype=bdt)
    struct = jax.ShapeDtypeStruct(xshape, jnp.dtype(dt))
    if recipe.get('invalid') == 'method':
        must_raise('invalid-method', T, band, struct, method=recipe['bad_method'], exc=(ValueError,))
        return {'nontrivial': False, 'classes': ['invalid:method:' + recipe['bad_method']]}
    if recipe.get('invalid') == 'fft_small':
        if K == 1:
            return {'nontrivial': False, 'classes': ['invalid:skipped']}
        must_raise('invalid-fft-size', T, band, struct, method='overlap_save', fft_size=2 * K - 2 - recipe['seed'] % (2 * K - 2), exc=(ValueError,))
        return {'nontrivial': False, 'classes': ['invalid:fft_small']}
    if recipe.get('invalid') == 'fft_nonoverlap':
        m = METHODS[recipe['seed'] % 3]
        must_raise('invalid-fft-with-' + m, T, band, struct, method=m, fft_size=4 * K, exc=(ValueError,))
        return {'nontrivial': False, 'classes': ['invalid:fft_nonoverlap']}

    # illegal method names (incl. the documented-but-unlisted overlap_add) are refused for every configuration
    for bad in ('overlap_add', 'FFT', 'overlap', ''):
        must_raise('invalid-method', T, band, struct, method=bad, exc=(ValueError,))
    eps = float(np.finfo(np.float32 if 'float32' in (dt, bdt) else np.float64).eps)
    sband = float(np.abs(band_np).sum(axis=-1).max())
    xs = [_x(xshape, recipe['seed'], t) for t in range(2)]
    refs = [_toeplitz_apply_shifts(band_np, x) if recipe.get('long') else ops.toeplitz_apply(band_np, x) for x in xs]
    classes = []
    methods = recipe.get('only') or METHODS
    for method in methods:
        kw = {'method': method}
        if method == 'overlap_save' and recipe['fft_size'] is not None:
            kw['fft_size'] = recipe['fft_size']
        op = must_not_raise(f'construct:{method}', T, band, struct, **kw)
        if op.T is not op:
            raise Violation('not-self-transpose', 'op.T is not op')
        for x, ref in zip(xs, refs):
            y = must_not_raise(f'mv:{method}', op.mv, jnp.asarray(x, dtype=dt))
            if tuple(y.shape) != xshape:
                raise Violation(f'shape:{method}', f'output shape {tuple(y.shape)} != input shape {xshape}')
            if np.dtype(y.dtype) != np.dtype(dt):
                raise Violation(f'dtype:{method}', f'output dtype {y.dtype} != input dtype {dt}')
            xm = float(np.abs(x).max(initial=0.0))
            if method in ('fft', 'overlap_save'):
                N = op.fft_size if method == 'overlap_save' else n + 2 * (K - 1)
                tol = 8 * (math.log2(max(2, N)) + 4) * eps * sband * xm + 1e-30
            else:
                tol = 4 * eps * sband * xm + 1e-30
            err = np.abs(np.asarray(y, dtype=float) - ref)
            if not np.all(np.isfinite(np.asarray(y))) or err.max(initial=0.0) > tol:
                i = int(np.argmax(err))
                raise Violation(f'value:{method}', f'n={n} K={K} fft={kw.get("fft_size")} batch={recipe["xbatch"]}/{list(band_np.shape[:-1])}: '
                                                   f'max error {err.max():.3g} (tol {tol:.3g}) at flat index {i}')
        if method == 'overlap_save':
            fft = op.fft_size
            step = fft - 2 * (K - 1)
            total = n + 2 * (K - 1)
            if total % step:
                classes.append('partial_last_block')
            if math.ceil(total / step) >= 2:
                classes.append('multi_block')
            if fft == 2 * K - 1:
                classes.append('fft=2K-1')
            if recipe['fft_size'] is None:
                classes.append('default_fft')
    if not recipe.get('only'):
        op = T(band, struct)
        M = np.asarray(must_not_raise('as_matrix', op.as_matrix), dtype=float)
        bshape = tuple(recipe['xbatch'])
        bb = np.broadcast_to(band_np, bshape + (K,))
        rows = [ops.toeplitz_matrix(bb[idx], n) for idx in np.ndindex(*bshape)] if bshape else [ops.toeplitz_matrix(band_np, n)]
        want = ops._block_diag(rows)
        if M.shape != want.shape or not np.array_equal(M, want):
            raise Violation('as_matrix', f'as_matrix() differs from the block-diagonal band matrix (n={n}, K={K}, batch {bshape}/{band_np.shape[:-1]})')
        if not np.array_equal(want, want.T):
            raise AssertionError('reference not symmetric')
        # a second operator with the same structure, band layout and dtypes but OTHER band values: its own matrix and
        # its own products (whatever was computed for the first one)
        band2_np = -np.flip(band_np, axis=-1) + 1.0
        op2 = T(jnp.asarray(band2_np, dtype=bdt), struct, method=(recipe.get('only') or METHODS)[recipe['seed'] % len(recipe.get('only') or METHODS)])
        M2 = np.asarray(must_not_raise('as_matrix', op2.as_matrix), dtype=float)
        bb2 = np.broadcast_to(band2_np, bshape + (K,))
        want2 = ops._block_diag([ops.toeplitz_matrix(bb2[idx], n) for idx in np.ndindex(*bshape)] if bshape else [ops.toeplitz_matrix(band2_np, n)])
        if M2.shape != want2.shape or not np.array_equal(M2, want2):
            raise Violation('as_matrix:second-operator', f'as_matrix() of a second operator with the same layout and other band values is wrong (n={n}, K={K})')
        y2 = np.asarray(must_not_raise('mv:second-operator', op2.mv, jnp.asarray(xs[0], dtype=dt)), dtype=float)
        sband2 = float(np.abs(band2_np).sum(axis=-1).max())
        tol2 = 8 * (math.log2(max(2, n + 2 * K + 64)) + 4) * eps * sband2 * float(np.abs(xs[0]).max(initial=0.0)) + 1e-30
        if np.abs(y2 - ops.toeplitz_apply(band2_np, xs[0])).max(initial=0.0) > tol2:
            raise Violation('value:second-operator', f'product of a second operator with the same layout and other band values is wrong (n={n}, K={K}, method {op2.method})')
    if recipe.get('long'):
        classes.append('long_input')
    if K > n:
        classes.append('K>n')
    if K == 1:
        classes.append('K=1')
    if recipe['xbatch']:
        classes.append('batched')
        if list(band_np.shape[:-1]) != list(recipe['xbatch']):
            classes.append('broadcast_band')
    if dt != bdt:
        classes.append('narrower_band_dtype')
    nontrivial = any(c in classes for c in ('partial_last_block', 'multi_block', 'K>n', 'K=1', 'fft=2K-1', 'broadcast_band'))
    return {'nontrivial': nontrivial, 'classes': classes}
