"""C20 - Stokes containers and pytree helpers act leaf-wise and consistently."""

from __future__ import annotations

import math
import operator

import numpy as np
from hypothesis import strategies as st

from ..common import Violation, must_not_raise, must_raise

PROP = 'C20'
EXAMPLES = {'quick': 220, 'thorough': 6000}
RULE = (
    'Hypothesis draws (a) binary arithmetic: a Stokes kind x shape of rank 0-3 x dtype x DISTINCT per-component values '
    'x the other operand (python int/float/bool, numpy scalars, 0-d numpy and JAX arrays, broadcastable JAX arrays, a '
    'container of the same kind, a container of another kind, unsupported types) x {+,-,*,/,**} in direct and '
    'reflected position; (b) abs/neg/pos, indexing by ints, slices, masks and integer arrays, ravel, reshape, @; '
    '(c) the factories zeros/ones/full/normal/uniform/structure_for/from_stokes (positional and upper-case keywords, '
    'mixed component dtypes)/from_iquv/class_for with invalid kinds and counts; (d) the pytree helpers dot (complex '
    'leaves), *_like, normal_like/uniform_like, as_promoted_dtype, as_structure, is_leaf over arbitrary pytrees of '
    'arrays and ShapeDtypeStruct leaves. Oracle: numpy on each component separately with operand order preserved; '
    'other-kind / unsupported operands raise TypeError; promotion == numpy.result_type of the components used; '
    'dot == sum of numpy.vdot over leaves (conjugating the first argument); *_like reproduce treedef, shapes, dtypes '
    '(and fill value; random ones: bounds, determinism in the key, different leaves get different draws). '
    'non-trivial = a non-commutative operator with a reflected operand, or mixed dtypes, or a complex dot.'
    ' Also: every component of an arithmetic result equals, dtype and sign of zero included, the same operation on that component alone, for the operand as given and (Python scalars) for every equal Python scalar of another type (2 / 2.0 / 2+0j, True / 1, 0.0 / -0.0); dot(x, x) with the same object; dot on leaves of 1023-65536 elements; dot(x, y) with leaf dtypes of y drawn independently of x (complex against real, either way round).'
)
ASSUMPTIONS = [
    'NumPy ndarrays of rank >= 1 as the other operand are not generated (NumPy dispatch pre-empts the container and returns an object array)',
    'float32 everywhere with x64 off; float64/complex128 only with x64 on',
]

KINDS = ['I', 'QU', 'IQU', 'IQUV']
OPS = {'+': operator.add, '-': operator.sub, '*': operator.mul, '/': operator.truediv, '**': operator.pow}


def _vals(draw, n, positive=False):
    pool = [1.0, 2.0, 3.0, 0.5, 1.5, 4.0, 2.5] if positive else [1.0, -2.0, 3.0, 0.5, -1.5, 4.0, 2.5, -3.0]
    return [draw(st.sampled_from(pool)) for _ in range(n)]


@st.composite
def arith_case(draw, mode):
    kind = draw(st.sampled_from(KINDS))
    shape = [draw(st.integers(1, 3)) for _ in range(draw(st.integers(0, 3)))]
    dt = draw(st.sampled_from(['float32', 'float64', 'int32'])) if mode == 'x64' else draw(st.sampled_from(['float32', 'float32', 'int32']))
    op = draw(st.sampled_from(['+', '-', '*', '/', '**', '-', '/', '**']))
    if dt == 'int32' and op == '**':
        op = '-'
    n = math.prod(shape)
    comps = [_vals(draw, n, positive=(op == '**')) for _ in kind]
    # make the components pairwise different so that a component mix-up is visible
    for t, c in enumerate(comps):
        c[0] = c[0] + 0.25 * t if op != '**' else c[0] + t
    other = draw(st.sampled_from(['py_int', 'py_float', 'py_float', 'py_bool', 'py_complex', 'np_f32', 'np_f64', 'np_i32', 'np_0d',
                                  'jax_0d', 'jax_arr', 'jax_arr_b', 'same', 'same', 'other_kind', 'str', 'none', 'list', 'dict']))
    if op == '**' and other == 'py_complex':
        other = 'py_float'
    oval = draw(st.sampled_from([2.0, 3.0, 0.5, 1.5, 2.5]))
    if dt == 'int32':
        comps = [[float(int(v)) if int(v) != 0 else 1.0 for v in c] for c in comps]
    oshape = None
    ocomps = None
    if other in ('jax_arr', 'jax_arr_b'):
        oshape = list(shape) if other == 'jax_arr' else (list(shape[-1:]) if shape else [])
        ocomps = _vals(draw, math.prod(oshape), positive=True)
    if other == 'same':
        ocomps = [_vals(draw, n, positive=True) for _ in kind]
    if other == 'other_kind':
        other_kind = draw(st.sampled_from([k for k in KINDS if k != kind]))
    else:
        other_kind = None
    return {'what': 'arith', 'kind': kind, 'shape': shape, 'dtype': dt, 'op': op, 'comps': comps, 'other': other,
            'oval': oval, 'oshape': oshape, 'ocomps': ocomps, 'other_kind': other_kind, 'reflected': draw(st.booleans())}


@st.composite
def unary_case(draw, mode):
    kind = draw(st.sampled_from(KINDS))
    shape = [draw(st.integers(1, 4)) for _ in range(draw(st.integers(1, 3)))]
    dt = draw(st.sampled_from(['float32', 'float64'])) if mode == 'x64' else 'float32'
    n = math.prod(shape)
    comps = [[v + 0.25 * t for v in _vals(draw, n)] for t, _ in enumerate(kind)]
    what = draw(st.sampled_from(['abs', 'neg', 'pos', 'index_int', 'index_slice', 'index_mask', 'index_arr', 'ravel',
                                 'reshape', 'matmul', 'props']))
    arg = None
    if what == 'index_int':
        arg = draw(st.integers(-shape[0], shape[0] - 1))
    elif what == 'index_slice':
        arg = [draw(st.one_of(st.none(), st.integers(-shape[0], shape[0]))), draw(st.one_of(st.none(), st.integers(-shape[0], shape[0]))),
               draw(st.sampled_from([None, 1, 2, -1]))]
    elif what == 'index_mask':
        arg = [draw(st.booleans()) for _ in range(shape[0])]
    elif what == 'index_arr':
        arg = [draw(st.integers(-shape[0], shape[0] - 1)) for _ in range(draw(st.integers(1, 4)))]
    elif what == 'reshape':
        from ..gen import _factorizations

        arg = list(draw(st.sampled_from(_factorizations(n))))
    # components of one container may have different dtypes (each operation acts on every component independently)
    cdts = None
    if draw(st.integers(0, 2)) == 0 and what != 'matmul':
        pool = ['float32', 'float16', 'int32'] + (['float64'] if mode == 'x64' else [])
        cdts = [draw(st.sampled_from(pool)) for _ in kind]
        comps = [[float(int(v)) or 1.0 for v in c] for c in comps]
    return {'what': what, 'kind': kind, 'shape': shape, 'dtype': dt, 'comps': comps, 'arg': arg, 'cdts': cdts}


@st.composite
def factory_case(draw, mode):
    what = draw(st.sampled_from(['zeros', 'ones', 'full', 'normal', 'uniform', 'structure_for', 'from_stokes_pos',
                                 'from_stokes_kw', 'from_iquv', 'class_for_bad', 'from_stokes_bad']))
    kind = draw(st.sampled_from(KINDS))
    shape = [draw(st.integers(1, 3)) for _ in range(draw(st.integers(0, 2)))]
    pool = ['float32', 'float16', 'int32'] + (['float64'] if mode == 'x64' else [])
    dts = [draw(st.sampled_from(pool)) for _ in range(4)]
    return {'what': what, 'kind': kind, 'shape': shape, 'dtype': draw(st.sampled_from(['float32'] + (['float64'] if mode == 'x64' else []))),
            'dts': dts, 'fill': draw(st.sampled_from([0, 1, 2.5, -3])), 'seed': draw(st.integers(0, 50)),
            'low': draw(st.sampled_from([0.0, -1.0, 2.0])), 'span': draw(st.sampled_from([1.0, 0.5, 3.0])),
            'bad': draw(st.sampled_from(['UQ', 'iqu', 'IQUVV', '', 'X', 'QUI'])), 'as_struct': draw(st.booleans()),
            'badcount': draw(st.sampled_from([5, 6]))}


_leaf_st = st.tuples(st.lists(st.integers(1, 3), max_size=2), st.sampled_from(['float32', 'int32', 'float16', 'complex64']))


@st.composite
def helper_case(draw, mode):
    what = draw(st.sampled_from(['dot', 'dot', 'like', 'random_like', 'as_promoted_dtype', 'as_structure', 'is_leaf']))
    nl = draw(st.integers(1, 4))
    leaves = [list(draw(_leaf_st)) for _ in range(nl)]
    if mode == 'x64':
        for l in leaves:
            if draw(st.integers(0, 3)) == 0:
                l[1] = draw(st.sampled_from(['float64', 'complex128']))
    if what == 'dot' and draw(st.integers(0, 3)) == 0:
        # long leaves (time streams, maps), around and at multiples of the block sizes a chunked reduction would use
        big = draw(st.sampled_from([[4096], [8192], [2, 4096], [4097], [5000], [12288], [3, 1024], [65536], [1023]]))
        leaves[draw(st.integers(0, nl - 1))] = [big, draw(st.sampled_from(['float32', 'int32', 'complex64']))]
        # (no half-precision leaf next to it: JAX promotes int32 + float16 to float16, whose range and 11-bit mantissa
        # cannot hold a sum over thousands of elements - a matter of the result dtype, not of the sum)
        leaves = [[sh_, 'float32' if dt_ == 'float16' else dt_] for sh_, dt_ in leaves]
    layout = draw(st.sampled_from(['tuple', 'list', 'dict', 'nested', 'leaf']))
    ydts = None
    if what == 'dot' and draw(st.booleans()):
        # the two arguments share the tree and the shapes, not necessarily the dtypes (a complex x against a real y, ...)
        pool_ = ['float32', 'int32', 'complex64', 'float32'] + (['float64', 'complex128'] if mode == 'x64' else [])
        ydts = [draw(st.sampled_from(pool_)) for _ in leaves]
    return {'what': what, 'ydts': ydts, 'leaves': leaves, 'layout': layout, 'seed': draw(st.integers(0, 99)),
            'fill': draw(st.sampled_from([0, 1, 3, -2])), 'struct_leaves': draw(st.booleans()),
            'low': draw(st.sampled_from([0.0, -2.0])), 'span': draw(st.sampled_from([1.0, 4.0]))}


def strategy(tier, mode):
    return st.one_of(arith_case(mode), arith_case(mode), arith_case(mode), unary_case(mode), factory_case(mode),
                     helper_case(mode))


# ---------------------------------------------------------------------------------------------


def _make(kind, shape, dt, comps):
    import jax.numpy as jnp

    from furax.landscapes import StokesPyTree

    return StokesPyTree.class_for(kind)(*[jnp.asarray(np.asarray(c, dtype=float).reshape(shape), dtype=dt) for c in comps])


def _leaves(x):
    import jax

    return [np.asarray(l) for l in jax.tree.leaves(x)]


def _close(a, b, rtol):
    a, b = np.asarray(a, dtype=np.complex128 if np.iscomplexobj(a) or np.iscomplexobj(b) else np.float64), np.asarray(b)
    return a.shape == np.shape(b) and np.allclose(a, b, rtol=rtol, atol=rtol)


def _check_arith(r, mode):
    import jax.numpy as jnp

    from furax.landscapes import StokesPyTree

    kind, shape, dt = r['kind'], tuple(r['shape']), r['dtype']
    x = _make(kind, shape, dt, r['comps'])
    xs = [np.asarray(c, dtype=np.float64).reshape(shape) for c in r['comps']]
    if dt == 'int32':
        xs = [np.trunc(a) for a in xs]
    f = OPS[r['op']]
    o = r['other']
    v = r['oval']
    per_comp = None
    expect_error = False
    if o == 'py_int':
        other = int(v) or 2
        per_comp = [float(other)] * len(kind)
    elif o == 'py_float':
        other = float(v)
        per_comp = [other] * len(kind)
    elif o == 'py_bool':
        other = True
        per_comp = [1.0] * len(kind)
    elif o == 'py_complex':
        other = complex(v, 1.0)
        per_comp = [other] * len(kind)
    elif o == 'np_f32':
        other = np.float32(v)
        per_comp = [float(other)] * len(kind)
    elif o == 'np_f64':
        other = np.float64(v) if mode == 'x64' else np.float32(v)
        per_comp = [float(other)] * len(kind)
    elif o == 'np_i32':
        other = np.int32(int(v) or 2)
        per_comp = [float(other)] * len(kind)
    elif o == 'np_0d':
        other = np.asarray(v, dtype=np.float32)
        per_comp = [float(other)] * len(kind)
    elif o == 'jax_0d':
        other = jnp.asarray(v, dtype=jnp.float32)
        per_comp = [float(v)] * len(kind)
    elif o in ('jax_arr', 'jax_arr_b'):
        arr = np.asarray(r['ocomps'], dtype=np.float64).reshape(r['oshape'])
        other = jnp.asarray(arr, dtype=jnp.float32)
        per_comp = [arr] * len(kind)
    elif o == 'same':
        other = _make(kind, shape, dt, r['ocomps'])
        per_comp = [np.asarray(c, dtype=np.float64).reshape(shape) for c in r['ocomps']]
        if dt == 'int32':
            per_comp = [np.trunc(c) for c in per_comp]
    elif o == 'other_kind':
        other = _make(r['other_kind'], shape, dt, [[1.0] * math.prod(shape)] * len(r['other_kind']))
        expect_error = True
    else:
        other = {'str': 'a', 'none': None, 'list': [1.0, 2.0], 'dict': {'i': 1.0}}[o]
        expect_error = True
    refl = r['reflected']
    call = (lambda: f(other, x)) if refl else (lambda: f(x, other))
    classes = ['op:' + r['op'], 'other:' + o, 'reflected' if refl else 'direct']
    if expect_error:
        if o == 'other_kind':
            # a container of another kind cannot be combined component-wise: any refusal counts
            must_raise(f'unsupported-operand:{o}', call, exc=(TypeError, ValueError))
            return {'nontrivial': False, 'classes': classes + ['rejected']}
        # foreign operand types (str, None, list, dict): the property does not say what must happen (a 0-d integer
        # container times a str even "works" through Python's sequence repetition); recorded, not judged
        try:
            call()
            return {'nontrivial': False, 'classes': classes + ['foreign_operand_accepted']}
        except Exception as e:  # noqa: BLE001
            return {'nontrivial': False, 'classes': classes + ['foreign_operand_rejected:' + type(e).__name__]}
    res = must_not_raise(f'arith:{r["op"]}:{o}:{"r" if refl else "d"}', call)
    if type(res) is not type(x):
        raise Violation('arith-type', f'{type(res).__name__} returned for {kind} {r["op"]} {o}')
    got = _leaves(res)
    rtol = 2e-6 if dt in ('float32', 'int32') or o in ('np_f32', 'np_0d', 'jax_0d', 'jax_arr', 'jax_arr_b') else 1e-12
    for c, g, xa, oc in zip(kind.lower(), got, xs, per_comp):
        with np.errstate(all='ignore'):
            want = f(oc, xa) if refl else f(xa, oc)
        if not _close(g, want, rtol * max(1.0, float(np.abs(want).max(initial=0)))):
            raise Violation(f'arith-value:{r["op"]}:{"reflected" if refl else "direct"}',
                            f'component {c}: {kind} {r["op"]} {o} ({"reflected" if refl else "direct"}) gives {g.reshape(-1)[:4]} instead of {np.asarray(want).reshape(-1)[:4]}')
    # differential oracle ("containers behave as component-wise arrays"): every component of the result is, dtype
    # included, what the same operation gives on that component alone. Python scalars are also replaced by the other
    # Python scalars that compare equal to them (2 / 2.0 / (2+0j), True / 1 / 1.0, 0.0 / -0.0): the results must follow
    # the type of the scalar actually passed, whatever was passed before.
    import jax

    xl = jax.tree.leaves(x)
    variants = [other]
    if o in ('py_int', 'py_float', 'py_bool', 'py_complex'):
        base = complex(other).real if o != 'py_complex' else None
        if base is not None and float(base).is_integer():
            variants += [int(base), float(base), complex(base)] + ([True] if base == 1 else [])
        if r['op'] == '*' :
            variants += [0.0, -0.0, 0]
        if r['op'] == '**':
            variants = [t for t in variants if not isinstance(t, complex)]
    if refl and o in ('np_f32', 'np_f64', 'np_i32', 'np_0d'):
        # NumPy's own scalar/array dunder runs first and decides what it hands over to the container's reflected method
        # (a Python float for np.float32): what the container then returns is not comparable with jax's handling
        variants = []
    for vi, ov in enumerate(variants):
        res_v = res if vi == 0 else must_not_raise(f'arith:{r["op"]}:{type(ov).__name__}', (lambda: f(ov, x)) if refl else (lambda: f(x, ov)))
        ol = jax.tree.leaves(ov) if o == 'same' else None
        for ci, (c, g) in enumerate(zip(kind.lower(), jax.tree.leaves(res_v))):
            oc = ol[ci] if ol is not None else ov
            with np.errstate(all='ignore'):
                direct = f(oc, xl[ci]) if refl else f(xl[ci], oc)
            if g.dtype != direct.dtype or g.shape != direct.shape:
                raise Violation(f'arith-componentwise-dtype:{r["op"]}',
                                f'component {c}: {kind}[{dt}] {r["op"]} {ov!r} ({type(ov).__name__}, {"reflected" if refl else "direct"}) '
                                f'gives {g.dtype}{g.shape}; the same operation on the component alone gives {direct.dtype}{direct.shape}')
            if not np.array_equal(np.asarray(g), np.asarray(direct), equal_nan=True) or \
                    not np.array_equal(np.signbit(np.asarray(g).real), np.signbit(np.asarray(direct).real)):
                raise Violation(f'arith-componentwise-value:{r["op"]}',
                                f'component {c}: {kind}[{dt}] {r["op"]} {ov!r} ({type(ov).__name__}, {"reflected" if refl else "direct"}) '
                                f'gives {np.asarray(g).reshape(-1)[:4]}; the same operation on the component alone gives {np.asarray(direct).reshape(-1)[:4]}')
    if len(variants) > 1:
        classes.append('equal_scalars_of_other_types')
    nontrivial = (refl and r['op'] in ('-', '/', '**')) or (o == 'same' and r['op'] in ('-', '/', '**'))
    if dt == 'int32':
        classes.append('integer_container')
    if o == 'py_complex':
        classes.append('complex_scalar')
    return {'nontrivial': bool(nontrivial), 'classes': classes}


def _check_unary(r, mode):
    import jax.numpy as jnp

    kind, shape, dt = r['kind'], tuple(r['shape']), r['dtype']
    x = _make(kind, shape, dt, r['comps'])
    xs = [np.asarray(c, dtype=np.float64).reshape(shape) for c in r['comps']]
    w = r['what']
    cdts = r.get('cdts')
    if cdts and w != 'props':
        from furax.landscapes import StokesPyTree

        x = StokesPyTree.class_for(kind)(*[jnp.asarray(a, dtype=d) for a, d in zip(xs, cdts)])
    if w == 'props':
        if tuple(x.shape) != shape or np.dtype(x.dtype) != np.dtype(dt):
            raise Violation('shape-dtype', f'shape {x.shape} dtype {x.dtype}')
        s = x.structure
        if type(s) is not type(x) or any(tuple(l.shape) != shape or np.dtype(l.dtype) != np.dtype(dt) for l in _leaves_struct(s)):
            raise Violation('structure', f'{s}')
        return {'nontrivial': False, 'classes': ['props']}
    if w == 'matmul':
        got = must_not_raise('matmul', lambda: x @ x)
        want = sum(float((a * a).sum()) for a in xs)
        if not _close(got, want, 1e-5 * max(1.0, abs(want))):
            raise Violation('matmul-value', f'{float(got)} instead of {want}')
        return {'nontrivial': False, 'classes': ['matmul']}
    fn = {'abs': (abs, np.abs), 'neg': (operator.neg, np.negative), 'pos': (operator.pos, lambda a: a)}.get(w)
    if fn:
        res, ref = must_not_raise(w, fn[0], x), [fn[1](a) for a in xs]
    elif w == 'ravel':
        res, ref = must_not_raise(w, x.ravel), [a.ravel() for a in xs]
    elif w == 'reshape':
        res, ref = must_not_raise(w, x.reshape, tuple(r['arg'])), [a.reshape(tuple(r['arg'])) for a in xs]
    else:
        if w == 'index_int':
            idx_j = idx_n = r['arg']
        elif w == 'index_slice':
            idx_j = idx_n = slice(*r['arg'])
        elif w == 'index_mask':
            idx_n = np.asarray(r['arg'], dtype=bool)
            idx_j = jnp.asarray(idx_n)
        else:
            idx_n = np.asarray(r['arg'], dtype=np.int64)
            idx_j = jnp.asarray(idx_n.astype(np.int32))
        res, ref = must_not_raise(w, lambda: x[idx_j]), [a[idx_n] for a in xs]
    if type(res) is not type(x):
        raise Violation('unary-type', f'{w}: {type(res).__name__}')
    for ci, (c, g, want) in enumerate(zip(kind.lower(), _leaves(res), ref)):
        dt = cdts[ci] if cdts else r['dtype']
        if g.shape != want.shape or not np.array_equal(g.astype(np.float64), want) or np.dtype(g.dtype) != np.dtype(dt):
            raise Violation('unary-value:' + w, f'component {c}: got {g.reshape(-1)[:4]} ({g.dtype}, shape {g.shape}) instead of {want.reshape(-1)[:4]} (shape {want.shape})')
    return {'nontrivial': bool(cdts), 'classes': ['unary:' + w] + (['mixed_component_dtypes'] if cdts else [])}


def _leaves_struct(s):
    import jax

    return jax.tree.leaves(s)


def _check_factory(r, mode):
    import jax
    import jax.numpy as jnp

    from furax.landscapes import StokesPyTree

    kind, shape = r['kind'], tuple(r['shape'])
    cls = StokesPyTree.class_for(kind)
    if cls.stokes != kind:
        raise Violation('class_for', f'class_for({kind!r}) has stokes {cls.stokes!r}')
    dt = np.dtype(r['dtype'])
    w = r['what']
    classes = ['factory:' + w]
    if w == 'class_for_bad':
        must_raise('class_for-invalid-kind', StokesPyTree.class_for, r['bad'], exc=(ValueError, TypeError, KeyError))
        return {'nontrivial': False, 'classes': classes}
    if w == 'from_stokes_bad':
        must_raise('from_stokes-invalid-count', StokesPyTree.from_stokes, *[jnp.ones(2)] * r['badcount'], exc=(TypeError, ValueError))
        must_raise('from_stokes-invalid-keywords', lambda: StokesPyTree.from_stokes(**{'Q': jnp.ones(2)}), exc=(TypeError, ValueError))
        must_raise('from_stokes-positional-and-keyword', lambda: StokesPyTree.from_stokes(jnp.ones(2), Q=jnp.ones(2)), exc=(TypeError, ValueError))
        return {'nontrivial': False, 'classes': classes}

    def expect(res, value=None, lo=None, hi=None, dtype=dt):
        if type(res) is not cls:
            raise Violation(f'factory-type:{w}', f'{type(res).__name__} instead of {cls.__name__}')
        ls = _leaves(res)
        if len(ls) != len(kind):
            raise Violation(f'factory-count:{w}', f'{len(ls)} components')
        for l in ls:
            if l.shape != shape or np.dtype(l.dtype) != np.dtype(dtype):
                raise Violation(f'factory-leaf:{w}', f'shape {l.shape} dtype {l.dtype}; expected {shape} {dtype}')
            if value is not None and not np.array_equal(l, np.full(shape, value, dtype=dtype)):
                raise Violation(f'factory-value:{w}', f'{l.reshape(-1)[:3]} instead of {value}')
            if lo is not None and ((l < lo).any() or (l > hi).any()):
                raise Violation(f'factory-bounds:{w}', f'values outside [{lo}, {hi}]')
        return ls

    key = jax.random.PRNGKey(r['seed'])
    if w == 'zeros':
        expect(must_not_raise(w, cls.zeros, shape, dt), 0)
    elif w == 'ones':
        expect(must_not_raise(w, cls.ones, shape, dt), 1)
    elif w == 'full':
        expect(must_not_raise(w, cls.full, shape, r['fill'], dt), r['fill'])
    elif w == 'structure_for':
        s = must_not_raise(w, cls.structure_for, shape, dt)
        if type(s) is not cls or any(tuple(l.shape) != shape or np.dtype(l.dtype) != dt for l in jax.tree.leaves(s)) or len(jax.tree.leaves(s)) != len(kind):
            raise Violation('structure_for', f'{s}')
    elif w in ('normal', 'uniform'):
        if w == 'normal':
            a, b = must_not_raise(w, cls.normal, key, shape, dt), must_not_raise(w, cls.normal, key, shape, dt)
            la = expect(a)
        else:
            lo, hi = r['low'], r['low'] + r['span']
            a = must_not_raise(w, cls.uniform, shape, key, dt, lo, hi)
            b = must_not_raise(w, cls.uniform, shape, key, dt, lo, hi)
            la = expect(a, lo=lo, hi=hi)
        if any(not np.array_equal(p, q) for p, q in zip(la, _leaves(b))):
            raise Violation(f'factory-determinism:{w}', 'same key, different draws')
        if len(kind) >= 2 and math.prod(shape) >= 2 and np.array_equal(la[0], la[1]):
            raise Violation(f'factory-independence:{w}', 'two components received identical draws')
    else:
        # from_stokes / from_iquv with mixed component dtypes: promotion to the common dtype of the components USED
        n = math.prod(shape)
        dts = [np.dtype(d) for d in r['dts']]
        arrs = [np.arange(1, n + 1, dtype=np.float64).reshape(shape) + t for t in range(4)]
        jarrs = [jnp.asarray(a, dtype=d) for a, d in zip(arrs, dts)]
        weak_c = [t for t in range(4) if dts[t] == np.dtype('float32') and (r['seed'] + t) % 3 == 0 and not r['as_struct']]
        for t in weak_c:
            arrs[t] = np.full(shape, float(t + 1))
            jarrs[t] = jnp.full(shape, float(t + 1))  # weakly typed float32
        if w == 'from_iquv':
            used = {'I': [0], 'QU': [1, 2], 'IQU': [0, 1, 2], 'IQUV': [0, 1, 2, 3]}[kind]
            res = must_not_raise(w, cls.from_iquv, *jarrs)
        else:
            used = list(range(len(kind)))
            args = [jarrs[t] for t in used]
            if r['as_struct']:
                args = [jax.ShapeDtypeStruct(a.shape, a.dtype) for a in args]
            if w == 'from_stokes_pos':
                res = must_not_raise(w, StokesPyTree.from_stokes, *args)
            else:
                pairs = list(zip(kind, args))
                # keywords written in any order (rotated / reversed by the seed)
                k_ = r['seed'] % max(1, len(pairs))
                pairs = pairs[k_:] + pairs[:k_]
                if r['seed'] % 2:
                    pairs.reverse()
                res = must_not_raise(w, lambda: StokesPyTree.from_stokes(**dict(pairs)))
        # (JAX promotion lattice, evaluated on the arrays themselves so that weakly typed components count as weak)
        want_dt = np.dtype(jnp.result_type(*[jarrs[t] for t in used]))
        if type(res) is not cls:
            raise Violation(f'factory-type:{w}', f'{type(res).__name__} instead of {cls.__name__}')
        ls = jax.tree.leaves(res)
        if len(ls) != len(kind):
            raise Violation(f'factory-count:{w}', f'{len(ls)} components')
        for c, l, t in zip(kind, ls, used):
            if tuple(l.shape) != shape or np.dtype(l.dtype) != want_dt:
                raise Violation(f'factory-promotion:{w}', f'component {c}: dtype {l.dtype}, expected {want_dt} (inputs {[str(dts[u]) for u in used]})')
            if not (w != 'from_iquv' and r['as_struct']) and not np.array_equal(np.asarray(l, dtype=np.float64), arrs[t]):
                raise Violation(f'factory-value:{w}', f'component {c} does not hold the {c} input')
            # (only judged when a strongly typed component takes part: a container built from weakly typed components
            # alone has nothing to be promoted to, and staying weak is consistent across its components)
            if not (w != 'from_iquv' and r['as_struct']) and want_dt.kind == 'f' and want_dt.itemsize >= 4 \
                    and any(u not in weak_c for u in used):
                after = np.dtype((l * jnp.ones((), dtype=jnp.float16)).dtype)
                if after != want_dt:
                    raise Violation(f'factory-weak-component:{w}', f'component {c} is weakly typed after promotion (times float16 -> {after}, expected {want_dt})')
        if len({str(dts[t]) for t in used}) > 1:
            classes.append('mixed_dtypes')
            return {'nontrivial': True, 'classes': classes}
    return {'nontrivial': False, 'classes': classes}


def _tree(layout, items):
    if layout == 'leaf' or len(items) == 0:
        return items[0]
    if layout == 'tuple':
        return tuple(items)
    if layout == 'list':
        return list(items)
    if layout == 'dict':
        return {k: v for k, v in zip(['b', 'a', 'd', 'c'], items)}
    return {'z': list(items[:-1]), 'a': items[-1]} if len(items) > 1 else {'z': (items[0],)}


def _check_helper(r, mode):
    import jax
    import jax.numpy as jnp

    import furax.tree as ft

    w = r['what']
    rng = np.random.default_rng(r['seed'])
    specs = [(tuple(sh), np.dtype(dt)) for sh, dt in r['leaves']]
    if r['layout'] == 'leaf':
        specs = specs[:1]

    def arr(sh, dt, k):
        a = rng.integers(-3, 4, sh).astype(np.float64)
        if dt.kind == 'c':
            a = a + 1j * rng.integers(-3, 4, sh)
        return a

    xs = [arr(sh, dt, 0) for sh, dt in specs]
    yspecs = specs
    if r.get('ydts'):
        yspecs = [(sh, np.dtype(yd)) for (sh, _), yd in zip(specs, r['ydts'])]
    ys = [arr(sh, dt, 1) for sh, dt in yspecs]
    jx = _tree(r['layout'], [jnp.asarray(a, dtype=dt) for a, (_, dt) in zip(xs, specs)])
    jy = _tree(r['layout'], [jnp.asarray(a, dtype=dt) for a, (_, dt) in zip(ys, yspecs)])
    structs = _tree(r['layout'], [jax.ShapeDtypeStruct(sh, dt) for sh, dt in specs])
    classes = ['helper:' + w]
    order = jax.tree.structure(jx)
    flat_specs = [(tuple(l.shape), np.dtype(l.dtype)) for l in jax.tree.leaves(jx)]
    if w == 'dot':
        got = must_not_raise('dot', ft.dot, jx, jy)
        lx_, ly_ = _leaves(jx), _leaves(jy)
        want = sum(np.vdot(a, b) for a, b in zip(lx_, ly_))
        if not _close(got, want, 1e-5 * max(1.0, abs(want))):
            raise Violation('dot-value', f'{complex(got)} instead of {complex(want)}')
        # the same object on both sides (squared norm): still Hermitian, i.e. real and equal to sum |leaf|^2
        got2 = must_not_raise('dot', ft.dot, jx, jx)
        want2 = sum(np.vdot(a, a) for a in lx_)
        if not _close(got2, want2, 1e-5 * max(1.0, abs(want2))):
            raise Violation('dot-value:same-object', f'dot(x, x) gives {complex(got2)} instead of {complex(want2)}')
        cplx = any(dt.kind == 'c' for _, dt in flat_specs)
        if cplx:
            classes.append('complex')
        if any(a.dtype.kind == 'c' and b.dtype.kind != 'c' for a, b in zip(jax.tree.leaves(jx), jax.tree.leaves(jy))):
            classes.append('complex_x_real_y')
        if any(a.dtype.kind != 'c' and b.dtype.kind == 'c' for a, b in zip(jax.tree.leaves(jx), jax.tree.leaves(jy))):
            classes.append('real_x_complex_y')
            cplx = True
        if any(int(np.prod(sh)) >= 1000 for sh, _ in flat_specs):
            classes.append('long_leaf')
        return {'nontrivial': cplx, 'classes': classes}
    src = structs if r['struct_leaves'] else jx
    if w == 'like':
        for name, f, val in (('zeros_like', ft.zeros_like, 0), ('ones_like', ft.ones_like, 1),
                             ('full_like', lambda t: ft.full_like(t, r['fill']), r['fill'])):
            res = must_not_raise(name, f, src)
            if jax.tree.structure(res) != order:
                raise Violation(name + '-treedef', f'{jax.tree.structure(res)}')
            for l, (sh, dt) in zip(jax.tree.leaves(res), flat_specs):
                if tuple(l.shape) != sh or np.dtype(l.dtype) != dt or not np.array_equal(np.asarray(l), np.full(sh, val, dtype=dt)):
                    raise Violation(name + '-leaf', f'shape {l.shape} dtype {l.dtype} for spec {sh} {dt}')
        return {'nontrivial': False, 'classes': classes}
    if w == 'random_like':
        fl = [(sh, np.dtype('float32')) for sh, _ in specs]
        src2 = _tree(r['layout'], [jax.ShapeDtypeStruct(sh, dt) for sh, dt in fl])
        key = jax.random.PRNGKey(r['seed'])
        lo, hi = r['low'], r['low'] + r['span']
        for name, f in (('normal_like', lambda t, k: ft.normal_like(t, k)), ('uniform_like', lambda t, k: ft.uniform_like(t, k, lo, hi))):
            a, b = must_not_raise(name, f, src2, key), must_not_raise(name, f, src2, key)
            c = must_not_raise(name, f, src2, jax.random.PRNGKey(r['seed'] + 1))
            if jax.tree.structure(a) != jax.tree.structure(src2):
                raise Violation(name + '-treedef', f'{jax.tree.structure(a)}')
            la, lb, lc = _leaves(a), _leaves(b), _leaves(c)
            for l, s in zip(la, jax.tree.leaves(src2)):
                if l.shape != tuple(s.shape) or np.dtype(l.dtype) != np.dtype(s.dtype):
                    raise Violation(name + '-leaf', f'shape {l.shape} dtype {l.dtype}')
                if name == 'uniform_like' and ((l < lo).any() or (l > hi).any()):
                    raise Violation(name + '-bounds', f'values outside [{lo}, {hi}]')
            if any(not np.array_equal(p, q) for p, q in zip(la, lb)):
                raise Violation(name + '-determinism', 'same key, different draws')
            big = [i for i, l in enumerate(la) if l.size >= 2]
            if big and all(np.array_equal(la[i], lc[i]) for i in big):
                raise Violation(name + '-key-ignored', 'a different key gives the same draws')
            same_shape = {}
            for i, l in enumerate(la):
                if l.size >= 2:
                    same_shape.setdefault(l.shape, []).append(i)
            for idxs in same_shape.values():
                if len(idxs) >= 2 and np.array_equal(la[idxs[0]], la[idxs[1]]):
                    raise Violation(name + '-independence', 'two leaves received identical draws')
        return {'nontrivial': False, 'classes': classes}
    if w == 'as_promoted_dtype':
        if not r['struct_leaves']:
            # some leaves weakly typed (as produced by jnp.full / jnp.asarray of python scalars): a cast leaf must
            # behave like every other leaf of the promoted dtype afterwards
            weak = [i for i, (sh, dt) in enumerate(specs) if dt == np.dtype('float32') and (r['seed'] + i) % 2 == 0]
            items = [jnp.asarray(a, dtype=dt) for a, (_, dt) in zip(xs, specs)]
            for i in weak:
                items[i] = jnp.full(specs[i][0], float(xs[i].reshape(-1)[0]) if xs[i].size else 0.0)
                xs[i] = np.full(specs[i][0], float(xs[i].reshape(-1)[0]) if xs[i].size else 0.0)
            jx = _tree(r['layout'], items)
            src = jx
            if weak:
                classes.append('weak_typed_leaves')
        res = must_not_raise(w, ft.as_promoted_dtype, src)
        want = np.dtype(jnp.result_type(*jax.tree.leaves(src)))
        if jax.tree.structure(res) != order:
            raise Violation(w + '-treedef', f'{jax.tree.structure(res)}')
        for l, (sh, dt), xa in zip(jax.tree.leaves(res), flat_specs, _leaves(jx)):
            if tuple(l.shape) != sh or np.dtype(l.dtype) != want:
                raise Violation(w + '-leaf', f'dtype {l.dtype}, expected {want}')
            if r['struct_leaves'] != isinstance(l, jax.ShapeDtypeStruct):
                raise Violation(w + '-leaf-kind', f'{type(l).__name__}')
            if not r['struct_leaves'] and not np.array_equal(np.asarray(l), xa.astype(want)):
                raise Violation(w + '-value', 'values changed by the cast')
            if not r['struct_leaves'] and want.kind == 'f' and want.itemsize >= 4:
                after = (l * jnp.ones((), dtype=jnp.float16)).dtype
                if np.dtype(after) != want:
                    raise Violation(w + '-weak-leaf', f'a leaf of the result is still weakly typed: times a float16 scalar it becomes {after}, the other leaves stay {want}')
        mixed = len({dt for _, dt in flat_specs}) > 1
        return {'nontrivial': mixed, 'classes': classes + (['mixed_dtypes'] if mixed else [])}
    if w == 'as_structure':
        res = must_not_raise(w, ft.as_structure, jx)
        if jax.tree.structure(res) != order:
            raise Violation(w + '-treedef', f'{jax.tree.structure(res)}')
        for l, (sh, dt) in zip(jax.tree.leaves(res), flat_specs):
            if not isinstance(l, jax.ShapeDtypeStruct) or tuple(l.shape) != sh or np.dtype(l.dtype) != dt:
                raise Violation(w + '-leaf', f'{l}')
        return {'nontrivial': False, 'classes': classes}
    # is_leaf
    if not ft.is_leaf(jnp.ones(2)) or not ft.is_leaf(jax.ShapeDtypeStruct((2,), jnp.float32)):
        raise Violation('is_leaf', 'an array / struct is not a leaf')
    if r['layout'] != 'leaf' and ft.is_leaf(jx):
        raise Violation('is_leaf', f'a {r["layout"]} is reported as a leaf')
    return {'nontrivial': False, 'classes': classes}


def check(recipe, mode):
    w = recipe['what']
    if w == 'arith':
        return _check_arith(recipe, mode)
    if 'comps' in recipe:
        return _check_unary(recipe, mode)
    if 'dts' in recipe:
        return _check_factory(recipe, mode)
    return _check_helper(recipe, mode)
