"""C16 - the acquisition operator equals the explicit pointing model."""

from __future__ import annotations

import math

import numpy as np
from hypothesis import strategies as st

from ..common import Skip, Violation, must_not_raise

PROP = 'C16'
EXAMPLES = {'quick': 36, 'thorough': 900}
BATCH = 12
RULE = (
    'Hypothesis draws nside in {1,2,4,8,16} (<= 256 thorough), a Stokes kind, 1-6 detectors with 1-3 directions each '
    '(arbitrary non-zero vectors), 1-12 samples (theta, phi, psi) over the full sphere incl. the poles and phi outside '
    '[0, 2pi), or a sampling from create_random_sampling on a hit map with holes, and integer-valued skies. Oracle: an '
    'independent numpy pointing model w = Rz(phi) Ry(theta) Rz(psi) v built from elementary rotations, pixel = '
    'healpy.vec2pix(nside, w) in ring ordering, TOD = sky[pixel] with (Q,U) rotated by 2 psi; acquisition = '
    '(I + Q cos 2psi - U sin 2psi)/2, compared before and after reduce(); P.T @ P applied to skies equals hit counts '
    'times the sky per Stokes component, before and after reduce(). With x64 on: default float64 landscapes, '
    'projection and acquisition; with x64 off: projection on float32 landscapes only. Samples whose reference pixel '
    'changes under a 1e-9 (x64) / 1e-4 (float32) perturbation of w are excluded from the pixel verdict (counted). '
    'non-trivial = >= 2 detectors, >= 2 samples, psi != 0 and not all samples in one pixel.'
    ' Also: a ramp sky identifies the pixel read by EVERY sample, which must be one of the pixels overlapping a disc of radius 3 delta around the reference direction (healpy.query_disc; 26 perturbations for long scans); samples that send a detector direction exactly onto a pole; scans of 65536-131072 samples (one detector, angles derived from the seed, vectorised reference); projection, P.T @ P and its reduction built under jax.jit; an earlier scan of the same length projected and dropped before the scan under test.'
)
ASSUMPTIONS = [
    'healpy (C library) is the reference for HEALPix ring pixelisation',
    'create_acquisition is judged with one direction per detector (the SAT model); with several it raises ValueError (recorded, not judged)',
    'with x64 off only create_projection_operator on float32 landscapes is checked (float64 landscapes cannot be honoured, LinearPolarizerOperator.create defaults to float64)',
]


@st.composite
def case_st(draw, tier, mode):
    nside = draw(st.sampled_from([1, 2, 4, 8, 16] if tier == 'quick' else [1, 2, 4, 8, 16, 32, 64, 256]))
    kind = draw(st.sampled_from(['I', 'QU', 'IQU', 'IQUV']))
    ndet = draw(st.integers(1, 6))
    ndir = draw(st.sampled_from([1, 1, 1, 2, 3]))
    comp = st.sampled_from([-1.0, -0.5, 0.0, 0.25, 0.3, 1.0, 0.05, -0.02])
    dirs = []
    for _ in range(ndet * ndir):
        v = [draw(comp), draw(comp), draw(st.sampled_from([1.0, 1.0, 2.0, 0.5, -1.0, 0.0]))]
        if not any(v):
            v[2] = 1.0
        dirs.append(v)
    form = draw(st.sampled_from(['free', 'free', 'random_sampling', 'boresight', 'compact', 'pole', 'long']))
    ns = draw(st.integers(1, 12))
    if form == 'long':
        # a long scan (more samples than any block size a chunked pointing expansion would use); one detector, angles
        # derived from the seed inside the check
        ndet, ndir, nside = 1, 1, draw(st.sampled_from([1, 2, 4, 8]))
        dirs = dirs[:1]
    if form == 'boresight':
        dirs = [[0.0, 0.0, 1.0]] * (ndet * ndir)
    if form == 'compact':
        # a compact focal plane of (almost exactly) normalised directions around the boresight, many samples, fine map
        nside = draw(st.sampled_from([128, 256] if tier == 'quick' else [256, 512]))
        ns = draw(st.integers(24, 64))
        off = st.floats(-4e-3, 4e-3, allow_nan=False)
        dirs = []
        for _ in range(ndet * ndir):
            x, y = draw(off), draw(off)
            z = math.sqrt(max(0.0, 1.0 - x * x - y * y))
            scale = 1.0 + draw(st.sampled_from([0.0, 1e-6, -1e-6, 8e-6, -8e-6]))
            dirs.append([x * scale, y * scale, z * scale])
    # the Euler angle theta is any real number (a scan may pass over a pole): [-pi, 2 pi]
    ang = st.one_of(st.sampled_from([0.0, math.pi, math.pi / 2, 1e-3, math.pi - 1e-3, -0.3, math.pi + 0.4]),
                    st.floats(0.0, math.pi, allow_nan=False), st.floats(-math.pi, 2 * math.pi, allow_nan=False))
    phi_s = st.one_of(st.sampled_from([0.0, math.pi, -math.pi, 2 * math.pi, 7.0, -4.0]), st.floats(-4 * math.pi, 4 * math.pi, allow_nan=False))
    psi_s = st.one_of(st.sampled_from([0.0, math.pi / 4, -math.pi / 2, 1.0, 3.0]), st.floats(-2 * math.pi, 2 * math.pi, allow_nan=False))
    theta = [draw(ang) for _ in range(ns)]
    phi = [draw(phi_s) for _ in range(ns)]
    psi = [draw(psi_s) for _ in range(ns)]
    if form == 'pole':
        # every sample sends the first detector direction exactly onto a pole: theta = its colatitude, psi = pi - its
        # longitude (north), or the mirrored choice (south); phi is free
        v0 = np.asarray(dirs[0], dtype=float)
        v0 = v0 / np.linalg.norm(v0)
        a0, b0 = math.acos(max(-1.0, min(1.0, v0[2]))), math.atan2(v0[1], v0[0])
        ns = draw(st.integers(6, 16))
        theta = [a0 if draw(st.booleans()) else a0 - math.pi for _ in range(ns)]
        psi = [math.pi - b0 for _ in range(ns)]
        phi = [draw(phi_s) for _ in range(ns)]
    holes = draw(st.integers(0, 3))
    return {'nside': nside, 'kind': kind, 'ndet': ndet, 'ndir': ndir, 'dirs': dirs, 'form': form, 'theta': theta,
            'phi': phi, 'psi': psi, 'seed': draw(st.integers(0, 10 ** 6)), 'holes': holes, 'nsamp': ns}


def strategy(tier, mode):
    return case_st(tier, mode)


def _Rz(a):
    c, s = math.cos(a), math.sin(a)
    return np.array([[c, -s, 0], [s, c, 0], [0, 0, 1.0]])


def _Ry(a):
    c, s = math.cos(a), math.sin(a)
    return np.array([[c, 0, s], [0, 1.0, 0], [-s, 0, c]])


def check(recipe, mode):
    import healpy as hp
    import jax
    import jax.numpy as jnp

    from furax.detectors import DetectorArray
    from furax.landscapes import HealpixLandscape, StokesPyTree
    from furax.projections import create_projection_operator
    from furax.samplings import Sampling, create_random_sampling

    x64 = mode == 'x64'
    nside, kind, ndet, ndir = recipe['nside'], recipe['kind'], recipe['ndet'], recipe['ndir']
    npix = 12 * nside * nside
    fdt = np.float64 if x64 else np.float32
    if x64:
        landscape = HealpixLandscape(nside, kind)
    else:
        landscape = HealpixLandscape(nside, kind, np.float32)
    d = np.asarray(recipe['dirs'], dtype=np.float64).reshape(ndet, ndir, 3)
    dets = must_not_raise('DetectorArray', DetectorArray, d[..., 0], d[..., 1], d[..., 2])
    vhat = d / np.linalg.norm(d, axis=-1, keepdims=True)
    classes = ['kind:' + kind, f'ndir:{ndir}', 'form:' + recipe['form']]
    if recipe['form'] == 'random_sampling':
        rng = np.random.default_rng(recipe['seed'])
        hit = rng.integers(1, 5, npix).astype(float)
        for _ in range(recipe['holes']):
            a = int(rng.integers(0, npix))
            hit[a: a + max(1, npix // 6)] = 0
        if hit.sum() == 0:
            hit[0] = 1
        samp = must_not_raise('create_random_sampling', create_random_sampling, jnp.asarray(hit), recipe['nsamp'],
                              np.random.default_rng(recipe['seed'] + 1))
        theta, phi, psi = (np.asarray(a, dtype=np.float64) for a in (samp.theta, samp.phi, samp.pa))
        # the generator must only point at observed pixels (boresight direction = pixel centre)
        pix0 = hp.ang2pix(nside, theta, phi)
        if (hit[pix0] == 0).any():
            raise Violation('random-sampling-unobserved-pixel', 'create_random_sampling drew a pixel with zero hits')
    else:
        theta, phi, psi = (np.asarray(recipe[k], dtype=np.float64) for k in ('theta', 'phi', 'psi'))
        if recipe['form'] == 'long':
            rl = np.random.default_rng(recipe['seed'] + 3)
            nl = [65536, 65537, 70000, 131072, 66000][recipe['seed'] % 5]
            theta, phi, psi = rl.uniform(0, math.pi, nl), rl.uniform(-math.pi, 3 * math.pi, nl), rl.uniform(-math.pi, math.pi, nl)
        if recipe['seed'] % 3 == 0:
            # a loop over observations: an earlier scan of the same length was projected and dropped just before this one
            # is created (whatever the library remembers about it must not leak into the new scan)
            from furax.projections import get_rotation_matrix

            tmp = Sampling(jnp.asarray(theta[::-1] * 0.5, dtype=fdt), jnp.asarray(phi[::-1] + 1.0, dtype=fdt), jnp.asarray(psi * 0 + 0.3, dtype=fdt))
            must_not_raise('earlier-scan', get_rotation_matrix, tmp)
            del tmp
            classes.append('earlier_scan_dropped')
        samp = Sampling(jnp.asarray(theta, dtype=fdt), jnp.asarray(phi, dtype=fdt), jnp.asarray(psi, dtype=fdt))
        # the model sees the angles as rounded to the working precision
        theta, phi, psi = (np.asarray(np.asarray(a, dtype=fdt), dtype=np.float64) for a in (theta, phi, psi))
    ns = len(theta)
    # ---- reference pointing (vectorised over samples): w = Rz(phi) Ry(theta) Rz(psi) v
    delta = 1e-9 if x64 else 2e-4

    def rotate(v):
        x0, y0, z0 = v[..., 0, None], v[..., 1, None], v[..., 2, None]  # (ndet, ndir, 1)
        cp, sp = np.cos(psi), np.sin(psi)
        x1, y1 = x0 * cp - y0 * sp, x0 * sp + y0 * cp
        ct, st_ = np.cos(theta), np.sin(theta)
        x2, z2 = x1 * ct + z0 * st_, -x1 * st_ + z0 * ct
        cf, sf = np.cos(phi), np.sin(phi)
        return x2 * cf - y1 * sf, x2 * sf + y1 * cf, z2 + 0 * x2

    wx, wy, wz = rotate(vhat)
    pix = np.asarray(hp.vec2pix(nside, wx, wy, wz), dtype=np.int64).reshape(ndet, ndir, ns)
    cands = [pix]
    for k in range(3):
        for sgn in (-1, 1):
            dv = [wx, wy, wz]
            dv[k] = dv[k] + sgn * delta
            cands.append(np.asarray(hp.vec2pix(nside, *dv), dtype=np.int64).reshape(ndet, ndir, ns))
    robust = (np.stack(cands) == pix[None]).all(axis=0)
    # candidate pixels of a sample: every pixel overlapping the disc of radius 3 delta around the pointed direction
    # (few samples), or the pixels hit by 26 perturbations of length 2 delta (long scans)
    if ndet * ndir * ns <= 2000:
        cand_sets = np.empty((ndet, ndir, ns), dtype=object)
        for idx_ in np.ndindex(ndet, ndir, ns):
            if robust[idx_]:
                cand_sets[idx_] = {int(pix[idx_])}
            else:
                cand_sets[idx_] = set(int(q_) for q_ in hp.query_disc(nside, np.array([wx[idx_], wy[idx_], wz[idx_]]), 3 * delta, inclusive=True, fact=64)) | {int(pix[idx_])}
    else:
        for dx in (-1, 0, 1):
            for dy in (-1, 0, 1):
                for dz in (-1, 0, 1):
                    if (dx, dy, dz) != (0, 0, 0):
                        nrm = 2 * delta / math.sqrt(dx * dx + dy * dy + dz * dz)
                        cands.append(np.asarray(hp.vec2pix(nside, wx + dx * nrm, wy + dy * nrm, wz + dz * nrm), dtype=np.int64).reshape(ndet, ndir, ns))
        stack_ = np.stack(cands)
        cand_sets = np.empty((ndet, ndir, ns), dtype=object)
        for idx_ in np.ndindex(ndet, ndir, ns):
            cand_sets[idx_] = set(stack_[(slice(None),) + idx_].tolist())
    shape = (ndet, ns) if ndir == 1 else (ndet, ndir, ns)
    pix_s, rob_s = pix.reshape(shape), robust.reshape(shape)
    rng = np.random.default_rng(recipe['seed'] + 7)
    sky = {c: rng.integers(-4, 5, npix).astype(np.float64) for c in kind.lower()}
    sky_tree = StokesPyTree.from_stokes(*[jnp.asarray(sky[c], dtype=fdt) for c in kind.lower()])
    c2, s2 = np.cos(2 * psi), np.sin(2 * psi)
    want = {}
    for c in kind.lower():
        want[c] = sky[c][pix_s]
    if 'q' in want:
        q, u = want['q'], want['u']
        want['q'] = q * c2 - u * s2
        want['u'] = q * s2 + u * c2

    proj = must_not_raise('create_projection_operator', create_projection_operator, landscape, samp, dets)
    ins = proj.in_structure()
    if jax.tree.structure(ins) != jax.tree.structure(landscape.structure) or any(
            tuple(a.shape) != (npix,) for a in jax.tree.leaves(ins)):
        raise Violation('projection-in-structure', f'in_structure {ins}')
    tod = must_not_raise('projection-mv', proj.mv, sky_tree)
    tol = (1e-11 if x64 else 2e-5) * 8
    leaves = jax.tree.leaves(tod)
    if len(leaves) != len(kind):
        raise Violation('projection-out-structure', f'{len(leaves)} components')
    for c, l in zip(kind.lower(), leaves):
        l = np.asarray(l, dtype=np.float64)
        if l.shape != shape:
            raise Violation('projection-out-shape', f'component {c}: shape {l.shape}, expected {shape}')
        bad = (np.abs(l - want[c]) > tol) & rob_s
        if bad.any():
            i = tuple(int(v[0]) for v in np.nonzero(bad))
            raise Violation('projection-value', f'component {c} at (det,[dir,]sample) {i}: got {l[i]!r} want {want[c][i]!r} '
                                                f'(reference pixel {int(pix_s[i])}, nside {nside})')
    # ---- every sample, robust or not, reads ONE OF the pixels within delta of the pointed direction: a ramp sky whose
    # first component is the pixel number identifies the pixel that was read (|Q + iU| is invariant under the rotation)
    if npix <= (2 ** 22 if 'i' in kind.lower() else 2 ** 16):
        ramp = np.arange(npix, dtype=np.float64)
        comp2 = {c: (ramp if c in ('i', 'q') else np.zeros(npix)) for c in kind.lower()}
        tod2 = must_not_raise('projection-mv', proj.mv, StokesPyTree.from_stokes(*[jnp.asarray(comp2[c], dtype=fdt) for c in kind.lower()]))
        l2 = {c: np.asarray(l, dtype=np.float64) for c, l in zip(kind.lower(), jax.tree.leaves(tod2))}
        ident = l2['i'] if 'i' in l2 else np.hypot(l2['q'], l2['u'])
        if not np.all(np.isfinite(ident)):
            raise Violation('projection-not-finite', 'NaN/Inf in the projected ramp sky')
        got_pix = np.rint(ident).astype(np.int64).reshape(ndet, ndir, ns)
        for i in np.ndindex(ndet, ndir, ns):
            if int(got_pix[i]) not in cand_sets[i]:
                raise Violation('projection-pixel', f'(det, dir, sample) {i}: pixel {int(got_pix[i])} was read; the pointed direction '
                                                    f'({wx[i]:.9g}, {wy[i]:.9g}, {wz[i]:.9g}) lies in pixel {int(pix[i])} (within {3 * delta:g}: {sorted(cand_sets[i])[:12]}), nside {nside}')
        classes.append('pixel_identity_checked')
    all_robust = bool(robust.all())
    # ---- P.T @ P = hit counts (before and after reduction)
    ptp = proj.T @ proj
    ptp_red = must_not_raise('PtP-reduce', ptp.reduce)
    hits = np.bincount(pix.reshape(-1), minlength=npix).astype(np.float64)
    ones = StokesPyTree.from_stokes(*[jnp.ones(npix, dtype=fdt) for _ in kind])
    for name, op in (('PtP', ptp), ('PtP-reduced', ptp_red)):
        out1 = must_not_raise(name + '-mv', op.mv, ones)
        out2 = must_not_raise(name + '-mv', op.mv, sky_tree)
        for c, l1, l2 in zip(kind.lower(), jax.tree.leaves(out1), jax.tree.leaves(out2)):
            l1, l2 = np.asarray(l1, dtype=np.float64), np.asarray(l2, dtype=np.float64)
            tolh = (1e-10 if x64 else 1e-4) * max(1.0, hits.max())
            if abs(l1.sum() - ndet * ndir * ns) > tolh * 4:
                raise Violation(name + '-total', f'component {c}: hit counts sum to {l1.sum()} instead of {ndet * ndir * ns}')
            if all_robust:
                if np.abs(l1 - hits).max() > tolh:
                    j = int(np.argmax(np.abs(l1 - hits)))
                    raise Violation(name + '-hits', f'component {c}, pixel {j}: {l1[j]} instead of {hits[j]} hits')
                if np.abs(l2 - hits * sky[c]).max() > tolh * 4:
                    raise Violation(name + '-value', f'component {c}: P.T P sky differs from hits * sky')
    # ---- the same product when the projection is BUILT under jit (pointing arrays are tracers there)
    if recipe['seed'] % 4 == 1 and ndet * ndir * ns <= 200:
        def built_under_jit(th_, ph_, ps_, x_):
            P_ = create_projection_operator(landscape, Sampling(th_, ph_, ps_), dets)
            return (P_.T @ P_).reduce().mv(x_)
        outj = must_not_raise('PtP-reduced-under-jit', lambda: jax.jit(built_under_jit)(samp.theta, samp.phi, samp.pa, ones))
        for c, l1 in zip(kind.lower(), jax.tree.leaves(outj)):
            l1 = np.asarray(l1, dtype=np.float64)
            tolh = (1e-10 if x64 else 1e-4) * max(1.0, hits.max())
            if abs(l1.sum() - ndet * ndir * ns) > tolh * 4:
                raise Violation('PtP-reduced-under-jit-total', f'component {c}: hit counts sum to {l1.sum()} instead of {ndet * ndir * ns}')
            if all_robust and np.abs(l1 - hits).max() > tolh:
                j = int(np.argmax(np.abs(l1 - hits)))
                raise Violation('PtP-reduced-under-jit-hits', f'component {c}, pixel {j}: {l1[j]} instead of {hits[j]} hits')
        classes.append('projection_built_under_jit')
    # ---- acquisition (SAT model: one direction per detector; needs 64-bit mode)
    if x64:
        from furax.instruments.sat import create_acquisition
        from furax.operators.hwp import HWPOperator
        from furax.operators.polarizers import LinearPolarizerOperator

        if ndir == 1:
            H = must_not_raise('create_acquisition', create_acquisition, landscape, samp, dets)
            unreduced = LinearPolarizerOperator.create((ndet, ns), stokes=kind) @ HWPOperator(proj.out_structure()) @ proj
            acq = 0.5 * (want.get('i', 0.0) + want.get('q', 0.0)) if kind != 'QU' else 0.5 * want['q']
            if kind == 'I':
                acq = 0.5 * want['i']
            for name, op in (('acquisition', H), ('acquisition-unreduced', unreduced)):
                y = np.asarray(must_not_raise(name + '-mv', op.mv, sky_tree), dtype=np.float64)
                if y.shape != (ndet, ns):
                    raise Violation(name + '-shape', f'shape {y.shape}')
                bad = (np.abs(y - acq) > tol) & rob_s
                if bad.any():
                    i = tuple(int(v[0]) for v in np.nonzero(bad))
                    raise Violation(name + '-value', f'at (det,sample) {i}: got {y[i]!r} want {acq[i]!r}')
            classes.append('acquisition')
        else:
            try:
                create_acquisition(landscape, samp, dets)
                classes.append('acquisition_multi_dir_accepted')
            except ValueError:
                classes.append('acquisition_multi_dir_rejected')
    nrob = int(robust.sum())
    classes.append('all_robust' if all_robust else 'some_non_robust')
    nontrivial = ndet >= 2 and ns >= 2 and np.any(psi != 0) and len(set(pix.reshape(-1).tolist())) > 1
    return {'nontrivial': bool(nontrivial), 'classes': classes}
