"""C12 - indexing and packing select, and their transposes scatter-add."""

from __future__ import annotations

import math

import numpy as np
from hypothesis import strategies as st

from .. import ops
from .. import structs as St
from ..common import Violation, must_not_raise

PROP = 'C12'
EXAMPLES = {'quick': 260, 'thorough': 5000}
RULE = (
    'Hypothesis draws an index expression from a grammar (ints of either sign, slices with any '
    'start/stop/step, one optional ellipsis, integer arrays of rank 0-2 with negative and repeated '
    'entries, several arrays broadcasting together, boolean masks of rank 1-2) over leaves of rank '
    '1-4 and multi-leaf / Stokes pytrees, with and without explicit out_structure, or a PackOperator '
    'mask; oracle = numpy x[idx], np.add.at scatter, S S^T / S^T S of the numpy selection matrix. '
    'non-trivial = integer array with a negative or repeated entry, or an ellipsis followed by >=1 '
    'entry, or >=2 leaves; distinct = distinct canonical recipe JSON.'
    ' Also: structured index values (contiguous range, range with one element repeated and one skipped, sorted, constant); long index arrays (300-9000 entries into 3-3000 pixels, every integer dtype able to hold the pixel numbers, negative entries for signed ones, one hot pixel) judged by gather, np.add.at and bincount: mv, transpose, (P.T@P).reduce() == diag(hit counts), (P@P.T).reduce().'
    ' Also: runs of 64+ consecutive indices, possibly starting at a negative index and running past zero.'
)
ASSUMPTIONS = [
    'index values are in bounds (furax documents numpy semantics only there; JAX clamps silently)',
    'boolean masks are always given an explicit out_structure (required by the constructor)',
    'unique_indices=True is only passed when it is true (caller promise)',
    'sizes: leaves of at most 60 elements',
]


# ---------------------------------------------------------------------------------------------
# generator


@st.composite
def _slice(draw, n):
    def bound():
        return draw(st.one_of(st.none(), st.integers(-n - 1, n + 1)))

    step = draw(st.sampled_from([None, None, 1, 2, -1, -2, 3]))
    return {'s': [bound(), bound(), step]}


@st.composite
def index_case(draw, mode):
    dtype = draw(st.sampled_from(['float32', 'float64'])) if mode == 'x64' else 'float32'
    rank = draw(st.integers(1, 4))
    shape = []
    budget = 60
    for _ in range(rank):
        d = draw(st.integers(1, max(1, min(5, budget))))
        shape.append(d)
        budget = max(1, budget // d)
    use_ellipsis = draw(st.booleans())
    use_mask = draw(st.integers(0, 5)) == 0
    # how many dims are addressed before / after the ellipsis
    if use_ellipsis:
        p = draw(st.integers(0, rank))
        q = draw(st.integers(0, rank - p))
    else:
        p, q = draw(st.integers(1, rank)), 0
    dims_before = list(range(p))
    dims_after = list(range(rank - q, rank))
    # choose entry kinds per addressed dim
    arr_shape = draw(st.sampled_from([(), (1,), (2,), (3,), (4,), (2, 2), (1, 3), (3, 1), (2, 3)]))
    entries = {}
    dims = dims_before + dims_after
    consumed = set()
    n_arrays = 0
    has_mask = False
    i = 0
    while i < len(dims):
        d = dims[i]
        n = shape[d]
        kinds = ['int', 'slice', 'slice_all', 'arr', 'arr']
        if use_mask and not has_mask and n_arrays == 0:
            kinds = ['mask'] * 3 + ['int', 'slice']
        if has_mask:
            kinds = ['int', 'slice', 'slice_all']
        kind = draw(st.sampled_from(kinds))
        if kind == 'int':
            entries[d] = {'i': draw(st.integers(-n, n - 1))}
        elif kind == 'slice':
            entries[d] = draw(_slice(n))
        elif kind == 'slice_all':
            entries[d] = {'s': [None, None, None]}
        elif kind == 'arr':
            # arrays broadcast together: each array takes arr_shape or a broadcastable variant
            shp = arr_shape
            if n_arrays > 0 and len(arr_shape) > 0 and draw(st.booleans()):
                shp = tuple(1 if draw(st.booleans()) else s for s in arr_shape)
            cnt = math.prod(shp)
            vals = draw(st.lists(st.integers(-n, n - 1), min_size=cnt, max_size=cnt))
            # structured values (what a fast path would look for): a contiguous range, a range with one element
            # repeated and one skipped (same first, last and length as a range), sorted values, a constant
            pattern_ = draw(st.sampled_from(['iid', 'iid', 'iid', 'range', 'near_range', 'near_range', 'sorted', 'constant']))
            if pattern_ in ('range', 'near_range') and 1 <= cnt <= n:
                a_ = draw(st.integers(0, n - cnt))
                vals = list(range(a_, a_ + cnt))
                if pattern_ == 'near_range' and cnt >= 3:
                    j_ = draw(st.integers(1, cnt - 2))
                    vals[j_] = vals[j_ + draw(st.sampled_from([-1, 1]))]
            elif pattern_ == 'sorted':
                vals = sorted(v % n for v in vals)
            elif pattern_ == 'constant':
                vals = [vals[0]] * cnt
            entries[d] = {'a': np.asarray(vals, dtype=int).reshape(shp).tolist()}
            # integer dtype of the index array: signed or (when no entry is negative) unsigned
            pool = ['int32', 'int32', 'int8', 'int16'] + (['int64'] if mode == 'x64' else [])
            if all(v >= 0 for v in vals):
                pool += ['uint8', 'uint16', 'uint32']
            entries[d]['dt'] = draw(st.sampled_from(pool))
            n_arrays += 1
        elif kind == 'mask':
            # a mask of rank 1 or 2 consumes 1 or 2 consecutive dims
            # (both dims of a rank-2 mask must lie on the same side of the ellipsis)
            same_side = (d + 1 < p) or (d >= rank - q)
            two = (
                i + 1 < len(dims) and dims[i + 1] == d + 1 and same_side and draw(st.booleans())
            )
            mshape = (n, shape[d + 1]) if two else (n,)
            cnt = math.prod(mshape)
            bits = draw(st.lists(st.booleans(), min_size=cnt, max_size=cnt))
            entries[d] = {'m': np.asarray(bits, dtype=bool).reshape(mshape).tolist()}
            has_mask = True
            if two:
                consumed.add(d + 1)
                i += 1
        i += 1
    idx = [entries[d] for d in dims_before if d in entries]
    if use_ellipsis:
        idx.append({'e': 1})
    idx += [entries[d] for d in dims_after if d in entries]
    if not idx:
        idx = [{'e': 1}]
    # the pytree around the leaf
    layout = draw(st.sampled_from(['leaf', 'leaf', 'tuple', 'list', 'dict', 'stokes', 'nested']))
    base = St.leaf(shape, dtype)

    def variant():
        # another leaf accepting the same expression: same shape, or extra dims at the ellipsis
        sh = list(shape)
        if use_ellipsis and draw(st.booleans()) and math.prod(sh) <= 20:
            extra = draw(st.integers(1, 3))
            sh = sh[:p] + [extra] + sh[p:]
        dt = dtype
        if mode == 'x64' and draw(st.booleans()):
            dt = draw(st.sampled_from(['float32', 'float64']))
        return St.leaf(sh, dt)

    if layout == 'leaf':
        S = base
    elif layout == 'tuple':
        S = {'t': 'tuple', 'items': [base] + [variant() for _ in range(draw(st.integers(0, 2)))]}
    elif layout == 'list':
        S = {'t': 'list', 'items': [base] + [variant() for _ in range(draw(st.integers(1, 2)))]}
    elif layout == 'dict':
        keys = draw(st.permutations(['b', 'a', 'c']))[: draw(st.integers(1, 3))]
        S = {'t': 'dict', 'items': [[k, base if j == 0 else variant()] for j, k in enumerate(keys)]}
    elif layout == 'stokes':
        S = St.stokes(draw(st.sampled_from(['I', 'QU', 'IQU', 'IQUV'])), shape, dtype)
    else:
        S = {'t': 'tuple', 'items': [{'t': 'dict', 'items': [['z', base], ['y', variant()]]}, variant()]}
    explicit_out = has_mask or draw(st.booleans())
    unique = None
    if n_arrays > 0 and draw(st.integers(0, 2)) == 0:
        unique = 'truthful'
    probe = draw(st.lists(st.integers(0, 1000), min_size=8, max_size=8))
    return {'kind': 'index', 'S': S, 'idx': idx, 'explicit_out': explicit_out, 'unique': unique,
            'bare': draw(st.booleans()), 'probe': probe}


@st.composite
def pack_case(draw, mode):
    dtype = draw(st.sampled_from(['float32', 'float64'])) if mode == 'x64' else 'float32'
    rank = draw(st.integers(1, 3))
    shape = [draw(st.integers(1, 4)) for _ in range(rank)]
    mrank = draw(st.integers(1, rank))
    cnt = math.prod(shape[:mrank])
    bits = draw(st.lists(st.booleans(), min_size=cnt, max_size=cnt))
    mask = np.asarray(bits, dtype=bool).reshape(shape[:mrank]).tolist()
    if draw(st.booleans()):
        S = St.leaf(shape, dtype)
    else:
        S = St.stokes(draw(st.sampled_from(['I', 'QU', 'IQU', 'IQUV'])), shape, dtype)
        if draw(st.integers(0, 2)) == 0 and len(S['kind']) > 1:
            # components of different dtypes: the pack acts on every leaf by itself
            pool = ['float32', 'float16'] + (['float64'] if mode == 'x64' else [])
            S['dtypes'] = [draw(st.sampled_from(pool)) for _ in S['kind']]
    probe = draw(st.lists(st.integers(0, 1000), min_size=8, max_size=8))
    return {'kind': 'pack', 'S': S, 'mask': mask, 'probe': probe}


@st.composite
def long_index_case(draw, mode):
    """A long index array (a pointing: thousands of samples) into few or many pixels, stored in any integer dtype that can
    hold the pixel numbers; negative entries for the signed ones. Judged without any dense matrix."""
    n = draw(st.sampled_from([3, 12, 12, 100, 127, 200, 255, 3000]))
    L = draw(st.sampled_from([300, 1000, 4096, 4097, 5000, 9000]))
    pool = ['int32', 'int32']
    if n <= 127:
        pool += ['int8', 'int8']
    if n <= 255:
        pool += ['uint8', 'uint8']
    pool += ['int16', 'uint16', 'uint32'] + (['int64'] if mode == 'x64' else [])
    dt = draw(st.sampled_from(pool))
    return {'kind': 'long_index', 'n': n, 'L': L, 'dt': dt, 'seed': draw(st.integers(0, 10 ** 6)),
            'negatives': (not dt.startswith('u')) and draw(st.booleans()), 'hot': draw(st.booleans()),
            'trailing': draw(st.sampled_from([[], [], [2]])), 'dtype': draw(st.sampled_from(['float32', 'float64'])) if mode == 'x64' else 'float32',
            'unique_arg': draw(st.sampled_from([None, False])),
            # consecutive runs (a contiguous block of samples), possibly starting at a negative index and running past zero
            'run': draw(st.sampled_from([None, None, None, 'inside', 'wrap', 'wrap']))}


def strategy(tier, mode):
    return st.one_of(index_case(mode), index_case(mode), index_case(mode), pack_case(mode), long_index_case(mode))


def _check_long(r, mode):
    import jax
    import jax.numpy as jnp

    from furax._base.core import IdentityOperator
    from furax._base.diagonal import DiagonalOperator
    from furax._base.indices import IndexOperator

    n, L = r['n'], r['L']
    rng = np.random.default_rng(r['seed'])  # (a pure function of the drawn seed: part of the recipe)
    idx = rng.integers(0, n, L)
    if r['hot']:
        idx[rng.random(L) < 0.6] = int(rng.integers(0, n))  # one pixel hit most of the time
    if r['negatives']:
        neg = rng.random(L) < 0.3
        idx = np.where(neg, idx - n, idx)
    if r.get('run') and n >= 64:
        L = int(min(L, n, 64 + r['seed'] % 64))
        signed = not r['dt'].startswith('u')
        start = (-(1 + r['seed'] % (L - 1)) if (r['run'] == 'wrap' and signed) else r['seed'] % (n - L + 1))
        idx = np.arange(start, start + L)
        if int(np.abs(idx).max()) > np.iinfo(r['dt']).max:
            idx = np.arange(0, L)
    idx = idx.astype(r['dt'])
    norm = np.asarray(idx, dtype=np.int64) % n
    shape = (n,) + tuple(r['trailing'])
    oshape = (L,) + tuple(r['trailing'])
    S = jax.ShapeDtypeStruct(shape, jnp.dtype(r['dtype']))
    kw = {} if r['unique_arg'] is None else {'unique_indices': False}
    op = must_not_raise('construct', IndexOperator, jnp.asarray(idx), in_structure=S, **kw)
    outs = op.out_structure()
    if tuple(outs.shape) != oshape or np.dtype(outs.dtype) != np.dtype(r['dtype']):
        raise Violation('out_structure', f'declared {outs}; expected {oshape}:{r["dtype"]}')
    x = rng.integers(-3, 4, shape).astype(np.float64)
    y = np.asarray(must_not_raise('mv', op.mv, jnp.asarray(x, dtype=r['dtype'])), dtype=np.float64)
    if y.shape != oshape or not np.array_equal(y, x[norm]):
        raise Violation('mv-value', f'op(x) != x[indices] for a long index array (L={L}, n={n}, {r["dt"]})')
    yv = rng.integers(-2, 3, oshape).astype(np.float64)
    z = np.asarray(must_not_raise('T-mv', op.T.mv, jnp.asarray(yv, dtype=r['dtype'])), dtype=np.float64)
    acc = np.zeros(shape)
    np.add.at(acc, norm, yv)
    if z.shape != shape or not np.array_equal(z, acc):
        raise Violation('T-mv-value', f'op.T(y) != scatter-add for a long index array (L={L}, n={n}, {r["dt"]})')
    classes = ['long_index_array', 'index_dtype:' + r['dt']] + (['neg_or_repeated_array'] if r['negatives'] or L > n else [])
    if r.get('run') and n >= 64:
        classes.append('consecutive_run:' + r['run'])
    counts = np.bincount(norm, minlength=n).astype(np.float64)
    red = must_not_raise('reduce(P.T@P)', (op.T @ op).reduce)
    got = np.asarray(must_not_raise('PtP-mv', red.mv, jnp.asarray(x, dtype=r['dtype'])), dtype=np.float64)
    want = counts.reshape((n,) + (1,) * len(r['trailing'])) * x
    if got.shape != want.shape or not np.array_equal(got, want):
        j = int(np.argmax(np.abs(got - want).reshape(n, -1).max(axis=1))) if got.shape == want.shape else -1
        raise Violation('PtP-reduced-value', f'(P.T @ P).reduce() is not the diagonal of hit counts (L={L}, n={n}, {r["dt"]}): pixel {j} '
                                             f'hit {int(counts[j])} times')
    if not isinstance(red, DiagonalOperator):
        raise Violation('PtP-not-simplified', f'P.T @ P with one indexed axis did not simplify to a diagonal: {type(red).__name__}')
    classes.append('PtP->diag')
    red2 = must_not_raise('reduce(P@P.T)', (op @ op.T).reduce)
    if isinstance(red2, IdentityOperator) and len(set(norm.tolist())) < L:
        raise Violation('PPt-identity-unsound', 'P @ P.T reduced to the identity although an element is selected twice')
    g2 = np.asarray(must_not_raise('PPt-mv', red2.mv, jnp.asarray(yv, dtype=r['dtype'])), dtype=np.float64)
    if not np.array_equal(g2, acc[norm]):
        raise Violation('PPt-reduced-value', f'(P @ P.T).reduce() differs from gather-after-scatter (L={L}, n={n}, {r["dt"]})')
    return {'nontrivial': True, 'classes': classes}


# ---------------------------------------------------------------------------------------------
# oracle helpers (numpy only)


def _selection_matrix(S, f_leaf):
    """Matrix of the map that applies f_leaf to every leaf (numpy)."""
    n = St.size(S)
    cols = []
    for j in range(n):
        e = np.zeros(n)
        e[j] = 1
        outs = [np.asarray(f_leaf(x)) for x in St.np_leaves_from_flat(S, e)]
        cols.append(np.concatenate([o.reshape(-1) for o in outs]) if outs else np.zeros(0))
    return np.stack(cols, axis=1) if cols else np.zeros((0, 0))


def _int_input(S, probe, t):
    n = St.size(S)
    return np.array([((probe[(i + t) % len(probe)] * (t + 2) + 3 * i) % 13) - 6 for i in range(n)], dtype=float)


def _is_unique_selection(Smat) -> bool:
    return bool(np.all(Smat.sum(axis=0) <= 1))


def _has_neg_or_repeat(idx, shape_by_pos):
    for it in idx:
        if 'a' in it:
            a = np.asarray(it['a']).reshape(-1)
            if (a < 0).any() or len(set(a.tolist())) < len(a):
                return True
    return False


def check(recipe, mode):
    if recipe['kind'] == 'long_index':
        return _check_long(recipe, mode)
    import jax

    from furax._base.core import IdentityOperator
    from furax._base.diagonal import DiagonalOperator
    from furax._base.indices import IndexOperator
    from furax._base.linear import PackOperator

    S = recipe['S']
    probe = recipe['probe']
    classes = []
    if recipe['kind'] == 'index':
        idx_np = ops._idx_np(recipe['idx'])
        f_leaf = lambda x: x[idx_np]  # noqa: E731
        r = {'k': 'index', 'in': S, 'idx': recipe['idx']}
    else:
        mask = np.asarray(recipe['mask'], dtype=bool)
        f_leaf = lambda x: x[mask]  # noqa: E731
        r = {'k': 'pack', 'in': S, 'mask': recipe['mask']}
    out_S = ops.leaf_out(r)
    Smat = _selection_matrix(S, f_leaf)
    truly_unique = _is_unique_selection(Smat)

    # ---- construction
    if recipe['kind'] == 'index':
        idx = ops._idx_jax(recipe['idx'])
        if len(idx) == 1 and recipe.get('bare'):
            idx = idx[0]
        kw = {}
        if recipe['explicit_out']:
            kw['out_structure'] = St.to_jax(out_S)
        if recipe['unique'] == 'truthful':
            kw['unique_indices'] = truly_unique
        op = must_not_raise('construct', IndexOperator, idx, in_structure=St.to_jax(S), **kw)
        classes.append('explicit_out' if recipe['explicit_out'] else 'inferred_out')
    else:
        import jax.numpy as jnp

        op = must_not_raise('construct-pack', PackOperator, jnp.asarray(mask), St.to_jax(S))
        classes.append('pack')

    # ---- declared structures
    if not St.same_structure(S, must_not_raise('in_structure', op.in_structure)):
        raise Violation('in_structure', f'declared {op.in_structure()} != {St.to_jax(S)}')
    declared = must_not_raise('out_structure', op.out_structure)
    if not St.same_structure(out_S, declared):
        raise Violation('out_structure', f'declared {St.describe(declared)}; numpy says {St.describe(St.to_jax(out_S))}')

    # ---- selection
    for t in range(2):
        xf = _int_input(S, probe, t)
        x = St.value_from_flat(S, xf)
        y = must_not_raise('mv', op.mv, x)
        if not St.same_structure(out_S, y):
            raise Violation('mv-structure', f'returned {St.describe(y)}; expected {St.describe(St.to_jax(out_S))}')
        want = Smat @ xf
        got = St.flat_of_value(y)
        if not np.array_equal(got, want):
            raise Violation('mv-value', f'op(x) != x[indices]: got {got[:12]} want {want[:12]}')

    # ---- transpose = scatter-add
    opT = must_not_raise('transpose', lambda: op.T)
    if not St.same_structure(out_S, opT.in_structure()) or not St.same_structure(S, opT.out_structure()):
        raise Violation('T-structure', 'structures of the transpose are not swapped')
    m = Smat.shape[0]
    if m > 0:
        for t in range(2):
            yf = _int_input(out_S, probe, t + 5)
            y = St.value_from_flat(out_S, yf)
            z = must_not_raise('T-mv', opT.mv, y)
            if not St.same_structure(S, z):
                raise Violation('T-mv-structure', f'returned {St.describe(z)}')
            # independent scatter-add with np.add.at
            want_leaves = []
            pos = 0
            for (sh, _), (osh, _) in zip(St.leaves(S), St.leaves(out_S)):
                cnt = math.prod(osh)
                yl = yf[pos : pos + cnt].reshape(osh)
                pos += cnt
                acc = np.zeros(sh)
                if recipe['kind'] == 'index':
                    np.add.at(acc, idx_np, yl)
                else:
                    np.add.at(acc, mask, yl)
                want_leaves.append(acc.reshape(-1))
            want = np.concatenate(want_leaves)
            got = St.flat_of_value(z)
            if not np.array_equal(got, want):
                raise Violation('T-mv-value', f'op.T(y) != scatter-add: got {got[:12]} want {want[:12]}')

    n_in, n_out = Smat.shape[1], Smat.shape[0]
    # ---- P @ P.T
    if n_out > 0:
        ppt = must_not_raise('P@P.T', lambda: op @ opT)
        red = must_not_raise('reduce(P@P.T)', ppt.reduce)
        SSt = Smat @ Smat.T
        if isinstance(red, IdentityOperator):
            classes.append('PPt->I')
            if not np.array_equal(SSt, np.eye(n_out)):
                raise Violation('PPt-identity-unsound',
                                'P @ P.T reduced to the identity although an element is selected twice')
        _compare_dense(red, out_S, SSt, probe, 'PPt-reduced-value')
    # ---- P.T @ P
    if n_out > 0:
        ptp = must_not_raise('P.T@P', lambda: opT @ op)
        red = must_not_raise('reduce(P.T@P)', ptp.reduce)
        StS = Smat.T @ Smat
        assert np.array_equal(StS, np.diag(np.diag(StS)))
        _compare_dense(red, S, StS, probe, 'PtP-reduced-value')
        if isinstance(red, DiagonalOperator):
            classes.append('PtP->diag')
        if recipe['kind'] == 'index' and _single_array_axis(recipe['idx']) and not op.unique_indices \
                and len({sh for sh, _ in St.leaves(S)}) == 1:
            classes.append('PtP-rule-applicable')
            if not isinstance(red, DiagonalOperator):
                raise Violation('PtP-not-simplified',
                                f'P.T @ P with one indexed axis did not simplify to a diagonal: {type(red).__name__}')
    nontrivial = St.nleaves(S) >= 2
    if recipe['kind'] == 'index':
        if _has_neg_or_repeat(recipe['idx'], None):
            nontrivial = True
            classes.append('neg_or_repeated_array')
        e = [i for i, it in enumerate(recipe['idx']) if 'e' in it]
        if e and e[0] < len(recipe['idx']) - 1:
            nontrivial = True
            classes.append('ellipsis_then_entries')
        if any('m' in it for it in recipe['idx']):
            classes.append('mask')
        if any(it.get('dt', 'int32').startswith('uint') for it in recipe['idx'] if 'a' in it):
            classes.append('unsigned_index_array')
        if sum('a' in it for it in recipe['idx']) >= 2:
            classes.append('multi_array')
        if any('a' in it and np.asarray(it['a']).ndim == 2 for it in recipe['idx']):
            classes.append('rank2_array')
        if any('s' in it and it['s'][2] is not None and it['s'][2] < 0 for it in recipe['idx']):
            classes.append('negative_step')
    if St.nleaves(S) >= 2:
        classes.append('multi_leaf')
    if S.get('dtypes') and len(set(S['dtypes'])) > 1:
        classes.append('mixed_component_dtypes')
    if not truly_unique:
        classes.append('non_unique_selection')
    return {'nontrivial': nontrivial, 'classes': classes}


def _single_array_axis(idx) -> bool:
    """Exactly one entry is not a full slice / ellipsis, and it is an integer array."""
    active = [it for it in idx if not ('e' in it or ('s' in it and it['s'] == [None, None, None]))]
    return len(active) == 1 and 'a' in active[0]


def _compare_dense(op, in_S, M, probe, key):
    n = M.shape[1]
    for x in ops.probes(n, probe, max_basis=12):
        got, _ = must_not_raise(key + ':mv', ops.apply_flat, op, in_S, x)
        want = M @ x
        if got.shape != want.shape or not np.allclose(got, want, rtol=0, atol=1e-5 * (1 + np.abs(want).max(initial=0))):
            raise Violation(key, f'reduced operator disagrees with the numpy matrix: got {got[:10]} want {want[:10]}')
