"""C17 - sky pixelisation maps coordinates to indices consistently."""

from __future__ import annotations

import itertools
import math

import numpy as np
from hypothesis import strategies as st

from ..common import Violation, must_not_raise

PROP = 'C17'
EXAMPLES = {'quick': 150, 'thorough': 4000}
RULE = (
    'pixel2index: (also maps of 2**24-2**31 pixels with float32 coordinates) Hypothesis draws map shapes of 1-3 dimensions (dims 1-7; with x64 on also huge virtual maps of up to '
    '3e9 pixels) and batches of coordinates = integer centre + offset in (-0.5+d, 0.5-d), plus outside points (below '
    '-0.5-d or above n-0.5+d in >= 1 dimension, incl. +-1e6); oracle index = sum round(c_k) stride_k with the first '
    'coordinate fastest (numpy.ravel_multi_index on reversed coordinates), -1 outside, dtype int32 unless N-1 > 2^31-1 '
    '(then int64, x64 only); a sweep enumerates all integer coordinates of all small maps (bijection with 0..N-1). '
    'world2index: nside 1..64 (..4096 thorough, x64), theta in [0,pi], phi in [-4pi,4pi] against healpy.ang2pix (ring) on '
    'directions whose pixel is stable under a +-1e-9 / +-3e-5 perturbation. get_coverage: samplings of 1-200 samples, '
    'equal to numpy.bincount of the reference pixels (robust samplings) and always summing to the number of samples. '
    'non-trivial = >= 2 dimensions with distinct sizes, or an outside point with exactly one offending dimension, or a '
    'HEALPix case with >= 8 directions.'
    ' Also: short-lived landscapes (one of another resolution is used and dropped just before the one under test is created); timelines of 65536-140001 samples.'
)
ASSUMPTIONS = [
    'exact half-integer coordinates are not generated (nearest is ambiguous there; the docstring documents strict inequalities)',
    'the int64 sub-claim is decided only with x64 on (JAX has no int64 otherwise)',
    'healpy is the reference for HEALPix ring indexing; with x64 off nside <= 64',
]


@st.composite
def flat_case(draw, mode):
    nd = draw(st.integers(1, 3))
    huge = mode == 'x64' and draw(st.integers(0, 5)) == 0
    if huge:
        shape = [draw(st.sampled_from([1, 2, 3, 1000, 1500, 46341, 65536])) for _ in range(nd)]
        if math.prod(shape) > 3_000_000_000 or math.prod(shape) < 2 ** 31:
            shape = [50000, 50000][:nd] if nd >= 2 else [2 ** 31 + 5]
            nd = len(shape)
    else:
        shape = [draw(st.integers(1, 7)) for _ in range(nd)]
    # maps of 2**24 .. 2**31 pixels addressed with single-precision coordinates: every coordinate is exact in float32,
    # the flat index is not (it has to be accumulated in the integer dtype)
    medium = not huge and draw(st.integers(0, 5)) == 0
    if medium:
        nd = draw(st.integers(2, 3))
        shape = [draw(st.sampled_from([4097, 5000, 8192, 6001] if nd == 2 else [257, 300, 512, 401])) for _ in range(nd)]
    pshape = shape[::-1]
    npts = draw(st.integers(1, 8))
    cdt = 'float64' if (huge or (mode == 'x64' and not medium and draw(st.booleans()))) else 'float32'
    d = 1e-6 if cdt == 'float64' else 2e-3
    pts = []
    for _ in range(npts):
        kind = draw(st.sampled_from(['in', 'in', 'in', 'out1', 'outn']))
        cs = []
        bad_dims = set()
        if kind == 'out1':
            bad_dims = {draw(st.integers(0, nd - 1))}
        elif kind == 'outn':
            bad_dims = {k for k in range(nd) if draw(st.booleans())} or {0}
        for k in range(nd):
            n = pshape[k]
            if k in bad_dims:
                c = draw(st.sampled_from([-0.5 - d * 4, -1.0, -3.2, n - 0.5 + d * 4, float(n), n + 2.7, 1e6, -1e6]))
                if cdt == 'float32' and n > 2 ** 20:
                    c = draw(st.sampled_from([-1.0, -1e6, float(2 * n)]))
            else:
                centre = draw(st.integers(0, n - 1)) if n < 100 else draw(st.sampled_from([0, 1, n - 1, n - 2, n // 2, n // 3]))
                off = draw(st.floats(-0.5 + d * 4, 0.5 - d * 4, allow_nan=False))
                if n > 2 ** 20:
                    off = draw(st.sampled_from([0.0, 0.25, -0.25]))
                c = centre + off
            cs.append(c)
        pts.append(cs)
    return {'what': 'flat', 'shape': shape, 'pts': pts, 'cdtype': cdt, 'huge': huge,
            'stokes': draw(st.sampled_from(['I', 'QU', 'IQU', 'IQUV']))}


@st.composite
def healpix_case(draw, tier, mode):
    pool = [1, 2, 4, 8, 16, 32, 64]
    if mode == 'x64' and tier == 'thorough':
        pool += [128, 512, 1024, 4096]
    nside = draw(st.sampled_from(pool))
    n = draw(st.integers(1, 40))
    special_t = [0.0, math.pi, math.pi / 2, 1e-4, math.pi - 1e-4, math.acos(2 / 3), math.acos(-2 / 3)]
    theta = [draw(st.one_of(st.sampled_from(special_t), st.floats(0.0, math.pi, allow_nan=False))) for _ in range(n)]
    phi = [draw(st.one_of(st.sampled_from([0.0, math.pi / 2, math.pi, -math.pi, 2 * math.pi, 3.5 * math.pi, -7.0]),
                          st.floats(-4 * math.pi, 4 * math.pi, allow_nan=False))) for _ in range(n)]
    centres = None
    if draw(st.integers(0, 2)) == 0:
        # directions of pixel centres (robust at every resolution, also in float32): high nside is affordable
        nside = draw(st.sampled_from([64, 256, 1024, 2048, 4096]))
        npix = 12 * nside * nside
        centres = [draw(st.one_of(st.integers(0, 60), st.integers(npix - 60, npix - 1), st.integers(0, npix - 1))) for _ in range(n)]
    bcast = draw(st.integers(0, 3)) == 0
    return {'what': 'healpix', 'nside': nside, 'theta': theta, 'phi': phi, 'coverage': draw(st.booleans()),
            'rep': draw(st.integers(1, 5)), 'centres': centres, 'bcast': bcast, 'k': draw(st.integers(1, 3)),
            'f32_landscape': draw(st.booleans()), 'fresh': draw(st.integers(0, 3)) == 0,
            # long timelines: totals around and beyond 2**16 samples (not only multiples of a block length)
            'long_total': draw(st.sampled_from([None] * 5 + [65536, 65537, 70000, 100000, 131072, 140001]))}


def strategy(tier, mode):
    return st.one_of(flat_case(mode), flat_case(mode), healpix_case(tier, mode))


def sweep(tier, mode, shard, nshards):
    if mode != 'x32':
        return
    maxdim = 4 if tier == 'quick' else 6
    idx = 0
    for nd in (1, 2, 3):
        for shape in itertools.product(range(1, maxdim + 1), repeat=nd):
            idx += 1
            if idx % nshards == shard:
                yield {'what': 'bijection', 'shape': list(shape)}
    yield {'__sweep_meta__': True, 'exhaustive': True,
           'extra': {'sweep_box': f'every map shape with 1-3 dims of size 1..{maxdim}: all integer coordinates (bijection with 0..N-1) and the one-pixel border around the map (-1)'}}


_FLAT = None
_HP_CACHE: dict = {}


def _flat_cls():
    global _FLAT
    if _FLAT is None:
        import jax

        from furax.landscapes import StokesLandscape

        @jax.tree_util.register_pytree_node_class
        class FlatLandscape(StokesLandscape):
            def world2pixel(self, theta, phi):
                return (theta, phi)

        _FLAT = FlatLandscape
    return _FLAT


def _ref_index(pshape, cs):
    idx = 0
    stride = 1
    for c, n in zip(cs, pshape):
        r = int(np.floor(c + 0.5))
        if r < 0 or r >= n:
            return -1
        idx += r * stride
        stride *= n
    return idx


def check(recipe, mode):
    import jax.numpy as jnp

    x64 = mode == 'x64'
    if recipe['what'] == 'bijection':
        shape = tuple(recipe['shape'])
        land = _flat_cls()(shape, 'I', np.float32)
        pshape = shape[::-1]
        grids = np.meshgrid(*[np.arange(-1, n + 1) for n in pshape], indexing='ij')
        coords = [g.reshape(-1).astype(np.float32) for g in grids]
        got = np.asarray(must_not_raise('pixel2index', land.pixel2index, *[jnp.asarray(c) for c in coords]))
        want = np.array([_ref_index(pshape, [c[i] for c in coords]) for i in range(coords[0].size)])
        if not np.array_equal(got, want):
            j = int(np.nonzero(got != want)[0][0])
            raise Violation('pixel2index-value', f'shape {shape}: coordinates {[float(c[j]) for c in coords]} -> {int(got[j])}, expected {int(want[j])}')
        inside = want >= 0
        if sorted(got[inside].tolist()) != list(range(math.prod(shape))):
            raise Violation('pixel2index-bijection', f'shape {shape}: integer coordinates are not in bijection with 0..N-1')
        # row-major order of the map: index == ravel_multi_index of the reversed coordinates
        rm = np.ravel_multi_index(tuple(c[inside].astype(int) for c in coords[::-1]), shape)
        if not np.array_equal(got[inside], rm):
            raise Violation('pixel2index-order', f'shape {shape}: indices are not in row-major order of the map')
        if got.dtype != np.int32:
            raise Violation('pixel2index-dtype', f'dtype {got.dtype} for a map of {math.prod(shape)} pixels')
        return {'nontrivial': len(set(shape)) >= 2, 'classes': ['bijection', f'ndim:{len(shape)}']}

    if recipe['what'] == 'flat':
        shape = tuple(recipe['shape'])
        pshape = shape[::-1]
        land = _flat_cls()(shape, recipe['stokes'], np.float32)
        if land.pixel_shape != pshape or len(land) != math.prod(shape) or land.size != len(recipe['stokes']) * math.prod(shape):
            raise Violation('landscape-bookkeeping', f'shape {shape}: pixel_shape {land.pixel_shape}, len {len(land)}, size {land.size}')
        cdt = np.float64 if recipe['cdtype'] == 'float64' else np.float32
        pts = np.asarray(recipe['pts'], dtype=cdt)
        coords = [jnp.asarray(pts[:, k]) for k in range(len(shape))]
        got = np.asarray(must_not_raise('pixel2index', land.pixel2index, *coords))
        want = np.array([_ref_index(pshape, [float(pts[i, k]) for k in range(len(shape))]) for i in range(pts.shape[0])])
        if got.shape != want.shape or not np.array_equal(got.astype(np.int64), want):
            j = int(np.nonzero(got.astype(np.int64) != want)[0][0]) if got.shape == want.shape else 0
            raise Violation('pixel2index-value', f'shape {shape}: coordinates {pts[j].tolist()} -> {got[j] if got.shape == want.shape else got}, expected {int(want[j])}')
        N = math.prod(shape)
        classes = ['flat', f'ndim:{len(shape)}', 'coords:' + recipe['cdtype']]
        if recipe['cdtype'] == 'float32' and math.prod(shape) > 2 ** 24:
            classes.append('float32_coords_over_2^24_pixels')
        if x64:
            need64 = N - 1 > 2 ** 31 - 1
            if need64 and got.dtype != np.int64:
                raise Violation('pixel2index-dtype', f'{N} pixels need int64 indices, got {got.dtype}')
            if not need64 and got.dtype != np.int32:
                raise Violation('pixel2index-dtype', f'{N} pixels: documented dtype is int32, got {got.dtype}')
            if need64:
                classes.append('int64_needed')
        elif N - 1 <= 2 ** 31 - 1 and got.dtype != np.int32:
            raise Violation('pixel2index-dtype', f'{N} pixels: documented dtype is int32, got {got.dtype}')
        one_bad = False
        for i in range(pts.shape[0]):
            bad = sum(1 for k, n in enumerate(pshape) if not (0 <= math.floor(float(pts[i, k]) + 0.5) < n))
            if bad == 1 and len(shape) >= 2:
                one_bad = True
        if one_bad:
            classes.append('outside_in_one_dim')
        if (want == -1).any():
            classes.append('outside')
        return {'nontrivial': (len(shape) >= 2 and len(set(shape)) >= 2) or one_bad, 'classes': classes}

    # HEALPix
    import healpy as hp

    from furax.landscapes import HealpixLandscape
    from furax.samplings import Sampling

    nside = recipe['nside']
    fdt = np.float64 if x64 else np.float32
    if recipe.get('centres'):
        th0, ph0 = hp.pix2ang(nside, np.asarray(recipe['centres'], dtype=np.int64))
        theta = np.asarray(np.asarray(th0, dtype=fdt), dtype=np.float64)
        phi = np.asarray(np.asarray(ph0, dtype=fdt), dtype=np.float64)
    else:
        if not x64 and nside > 64:
            nside = 64
        theta = np.asarray(np.asarray(recipe['theta'], dtype=fdt), dtype=np.float64)
        phi = np.asarray(np.asarray(recipe['phi'], dtype=fdt), dtype=np.float64)
    theta = np.clip(theta, 0.0, math.pi)
    # (world2pixel is jitted with the landscape as a static argument: reuse instances to avoid recompiling)
    # the dtype of the map VALUES is independent of the precision of the pointing: float32 maps are also used with
    # 64-bit mode on (float64 angles)
    ldt = np.float32 if (x64 and recipe.get('f32_landscape')) else fdt
    key = (nside, ldt)
    if recipe.get('fresh') and nside <= 64:
        # a short-lived landscape (a loop over resolutions, a pytree rebuild): dropped after this case, so that whatever
        # the library remembers about it must not leak into the next landscape allocated at the same address
        other = 2 * nside if nside < 64 else nside // 2
        tmp = HealpixLandscape(other, 'I', ldt)
        got_tmp = int(np.asarray(tmp.world2index(jnp.asarray([1.0], dtype=fdt), jnp.asarray([1.0], dtype=fdt)))[0])
        if got_tmp != int(hp.ang2pix(other, float(np.asarray(1.0, dtype=fdt)), float(np.asarray(1.0, dtype=fdt)))):
            raise Violation('world2index-value', f'nside {other}: (theta, phi) = (1, 1) -> {got_tmp}')
        del tmp
        land = HealpixLandscape(nside, 'I', ldt)
    else:
        if key not in _HP_CACHE:
            _HP_CACHE[key] = HealpixLandscape(nside, 'I', ldt)
        land = _HP_CACHE[key]
    if land.shape != (12 * nside ** 2,) or land.nside != nside:
        raise Violation('landscape-bookkeeping', f'nside {nside}: shape {land.shape}')
    ref = hp.ang2pix(nside, theta, phi)
    delta = 1e-9 if x64 else (3e-5 if not recipe.get('centres') else min(3e-5, 0.05 / nside))
    robust = np.ones(theta.shape, dtype=bool)
    for dt_, dp in ((delta, 0), (-delta, 0), (0, delta), (0, -delta), (delta, delta), (-delta, -delta)):
        robust &= hp.ang2pix(nside, np.clip(theta + dt_, 0, math.pi), phi + dp) == ref
    got = np.asarray(must_not_raise('world2index', land.world2index, jnp.asarray(theta, dtype=fdt), jnp.asarray(phi, dtype=fdt)))
    if got.shape != ref.shape:
        raise Violation('world2index-shape', f'shape {got.shape}')
    bad = (got != ref) & robust
    if bad.any():
        j = int(np.nonzero(bad)[0][0])
        raise Violation('world2index-value', f'nside {nside}: (theta, phi) = ({theta[j]!r}, {phi[j]!r}) -> {int(got[j])}, healpy says {int(ref[j])}')
    if (got < 0).any() or (got >= 12 * nside ** 2).any():
        raise Violation('world2index-range', 'index outside 0..npix-1')
    classes = ['healpix', f'nside:{nside}', 'all_robust' if robust.all() else 'some_non_robust']
    if x64 and recipe.get('f32_landscape'):
        classes.append('float32_landscape_with_x64')
    if recipe.get('centres'):
        classes.append('pixel_centres')
    if recipe.get('fresh') and nside <= 64:
        classes.append('short_lived_landscape')
    if recipe['coverage'] and recipe.get('bcast') and nside <= 64:
        # a sampling given by broadcastable arrays: k colatitudes x n longitudes
        k = min(recipe.get('k', 1), theta.size)
        thb = theta[:k].reshape(k, 1)
        sampb = Sampling(jnp.asarray(thb, dtype=fdt), jnp.asarray(phi, dtype=fdt), jnp.zeros(phi.size, dtype=fdt))
        covb = np.asarray(must_not_raise('get_coverage', land.get_coverage, sampb))
        total = k * phi.size
        if int(covb.sum()) != total:
            raise Violation('coverage-total', f'coverage sums to {int(covb.sum())} for {total} samples ({k} colatitudes x {phi.size} longitudes)')
        refb = hp.ang2pix(nside, np.broadcast_to(thb, (k, phi.size)), np.broadcast_to(phi, (k, phi.size)))
        robb = np.ones(refb.shape, dtype=bool)
        for dt_, dp in ((delta, 0), (-delta, 0), (0, delta), (0, -delta)):
            robb &= hp.ang2pix(nside, np.clip(np.broadcast_to(thb, refb.shape) + dt_, 0, math.pi), np.broadcast_to(phi, refb.shape) + dp) == refb
        if robb.all() and not np.array_equal(covb, np.bincount(refb.reshape(-1), minlength=12 * nside ** 2)):
            raise Violation('coverage-value', 'coverage of a broadcast sampling differs from the histogram')
        classes.append('coverage_broadcast')
    if recipe['coverage'] and nside <= 1024:
        # (a coverage map at nside 4096 has 2e8 pixels: with 16 workers that alone exhausts the memory of this machine)
        rep = recipe['rep']
        th, ph = np.tile(theta, rep), np.tile(phi, rep)
        if recipe.get('long_total'):
            th, ph = np.resize(theta, recipe['long_total']), np.resize(phi, recipe['long_total'])
            classes.append('long_timeline')
        samp = Sampling(jnp.asarray(th, dtype=fdt), jnp.asarray(ph, dtype=fdt), jnp.zeros(th.size, dtype=fdt))
        cov = np.asarray(must_not_raise('get_coverage', land.get_coverage, samp))
        if cov.shape != land.shape:
            raise Violation('coverage-shape', f'shape {cov.shape}')
        if int(cov.sum()) != th.size:
            raise Violation('coverage-total', f'coverage sums to {int(cov.sum())} for {th.size} samples')
        if robust.all():
            want = np.bincount(np.resize(ref, th.size), minlength=12 * nside ** 2)
            if not np.array_equal(cov, want):
                j = int(np.nonzero(cov != want)[0][0])
                raise Violation('coverage-value', f'pixel {j}: {int(cov[j])} hits, histogram says {int(want[j])}')
        classes.append('coverage')
    return {'nontrivial': theta.size >= 8, 'classes': classes}
