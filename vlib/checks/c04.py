"""C04 - application is linear and as_matrix() is its faithful dense form."""

from __future__ import annotations

import numpy as np
from hypothesis import strategies as st

from .. import exprcheck as X
from .. import gen, ops
from .. import structs as St
from ..common import Violation, must_not_raise

PROP = 'C04'
EXAMPLES = {'quick': 60, 'thorough': 1500}
RULE = (
    'Hypothesis draws operators and composites with emphasis on the classes overriding as_matrix (identity, scalar, '
    'diagonal and its inverse, sums, block row/diag/column over nested containers and unsorted dict keys, '
    'reshape/ravel, Toeplitz with batch axes, lazy inverses) and on multi-leaf / mixed-dtype pytrees; coefficients '
    'a, b are small dyadics. Oracle: op(a x + b y) == a op(x) + b op(y); op.as_matrix() == the numpy matrix assembled '
    'in the documented order (leaves in pytree order, each row-major), shape (out_size, in_size); the generic '
    'AbstractLinearOperator.as_matrix(op) == the same matrix (run for inputs of <= 12 elements); op(x) flattened == '
    'as_matrix() @ flatten(x). non-trivial = >= 2 input or output leaves, or an as_matrix override in the tree.'
    ' Also: diagonal values with the shape of a square leaf on permuted axes; the same operator object several times in one sum; complex coefficients on real and on complex data for einsum blocks, diagonals and block row/column/diagonal operators (as_matrix, generic as_matrix and, on complex data, the transpose).'
    ' Also (wide): block operators with 9-17 blocks; the generic dense form on a pytree whose first leaf has 257-600 elements.'
)
ASSUMPTIONS = [
    'sizes <= ~40 elements; the generic column-by-column as_matrix costs an XLA compile per call and is run on a subset',
    'lazy CG inverses only of SPD operators with condition number <= ~25',
]

OVERRIDES = {'id', 'hom', 'diag', 'add', 'sub', 'block', 'reshape', 'ravel', 'toeplitz', 'I'}


@st.composite
def case_st(draw, tier, mode):
    cap = 16 if tier == 'quick' else 28
    c = draw(gen.expression_case(mode, cap=cap, max_len=4, depth=2))
    c['a'] = draw(st.sampled_from([1, -1, 2, 0.5, -0.25, 3]))
    c['b'] = draw(st.sampled_from([1, -2, 0.5, 0.75, -3]))
    c['generic'] = draw(st.integers(0, 2)) == 0
    return c


@st.composite
def override_case(draw, tier, mode):
    """An operator whose class overrides as_matrix, directly at the top of the expression."""
    cap = 16 if tier == 'quick' else 28
    G = gen.GenCtx(mode, cap=cap)
    S = draw(gen.structure(mode, cap=cap, kinds=('leaf', 'tuple', 'dict', 'nested', 'stokes', 'related', 'related')))
    ranks_ok = all(len(sh) >= 1 for sh, _ in St.leaves(S))
    forms = ['id', 'hom', 'sum', 'sum_repeat', 'bcol', 'inv']
    if ranks_ok:
        forms += ['diag', 'diag', 'diag_inv', 'diag_inv', 'ravel', 'reshape']
    if S['t'] in ('tuple', 'list', 'dict'):
        forms += ['bdiag', 'bdiag']
        if gen.row_applicable(S):
            forms += ['brow', 'brow']
    if S['t'] == 'leaf' and ranks_ok:
        forms += ['toeplitz', 'toeplitz']
    form = draw(st.sampled_from(forms))
    if draw(st.integers(0, 9)) == 0:
        # values with the SHAPE of the leaf laid on its axes in another order (square leaves): the dense form has to
        # follow axis_destination, not the shape
        d = draw(st.integers(2, 3))
        S = St.leaf([d, d] + ([draw(st.integers(1, 2))] if draw(st.booleans()) else []), draw(st.sampled_from(gen.dtypes(mode))))
        vals = [[float(draw(st.integers(-3, 3))) for _ in range(d)] for _ in range(d)]
        vals[0][d - 1] = 4.0
        axes = draw(st.sampled_from([[1, 0], [-1, -2], [1, -2]])) if len(S['shape']) == 2 else draw(st.sampled_from([[1, 0], [-2, -3], [1, 0]]))
        expr = {'k': 'diag', 'in': S, 'vals': vals, 'axis': axes, 'vdtype': 'float32', 'axis_as_list': draw(st.booleans())}
        if draw(st.booleans()):
            expr['vals'] = [[v if v != 0 else 1.0 for v in row] for row in vals]
            expr = {'k': 'I', 'op': expr}
        form = 'diag_permuted_axes'
    elif form == 'sum_repeat':
        # the same operator OBJECT several times in one sum (a + b + a, a + a)
        a = G.define(gen.leaf_operand(draw, G, S, square=True))
        b = gen.leaf_operand(draw, G, S, square=True)
        terms = draw(st.sampled_from([[a, b, a], [a, a], [a, b, a, a], [b, a, a]]))
        expr = {'k': 'add', 'ops': terms, 'via': draw(st.sampled_from(['plus', 'list'])), 'tree': gen._ptree(draw, len(terms))}
    elif form == 'id':
        expr = {'k': 'id', 'in': S}
    elif form == 'hom':
        expr = gen.leaf_operand(draw, G, S, kind='hom')
    elif form == 'diag':
        expr = gen.g_diag(draw, G, S, zeros=draw(st.booleans()))
    elif form == 'diag_inv':
        expr = {'k': 'I', 'op': gen.g_diag(draw, G, S, zeros=draw(st.booleans()))}
    elif form == 'sum':
        a = gen.leaf_operand(draw, G, S, square=True)
        expr = {'k': 'add', 'ops': [a, gen.leaf_operand(draw, G, S, square=True)], 'via': 'plus', 'tree': [0, 1]}
    elif form == 'ravel':
        expr = gen.g_ravel(draw, G, S)
    elif form == 'reshape':
        expr = gen.fix_reshape(gen.g_reshape(draw, G, S))
    elif form == 'toeplitz':
        expr = gen.g_toeplitz(draw, G, S)
    elif form == 'bdiag':
        expr = gen.g_block_diag(draw, G, S, 1)
    elif form == 'brow':
        expr = gen.g_block_row(draw, G, S, 1)
    elif form == 'bcol':
        expr = gen.g_block_col(draw, G, S, 1)
    else:
        r, _ = gen.invertible(draw, G, S)
        expr = {'k': 'I', 'op': r}
    if draw(st.integers(0, 3)) == 0 and expr['k'] != 'I':
        expr = {'k': 'T', 'op': expr}
    return {'defs': G.defs, 'expr': expr, 'probe': draw(st.lists(st.integers(0, 1000), min_size=8, max_size=8)),
            'a': draw(st.sampled_from([1, -1, 2, 0.5, -0.25, 3])), 'b': draw(st.sampled_from([1, -2, 0.5, 0.75, -3])),
            'generic': draw(st.integers(0, 2)) == 0}


def _has_cg(expr):
    return expr['k'] == 'I' and expr['op']['k'] in ('dense', 'toeplitz', 'block')


@st.composite
def complex_case(draw, tier, mode):
    """Operators whose OUTPUT dtype differs from their input dtype: complex coefficients on real data (einsum
    blocks or broadcast-diagonal values), alone or composed with a real operator. The generic as_matrix must
    allocate its result in the output dtype."""
    n = draw(st.integers(1, 4))
    m = draw(st.integers(1, 4))
    extra = [draw(st.integers(1, 2))] if draw(st.booleans()) else []
    kind = draw(st.sampled_from(['dense', 'dense', 'bdiag', 'dense_then_real', 'real_then_dense', 'hom_int', 'hom_complex',
                                 'hom_int_inv', 'blockdiag', 'blockrow', 'blockcol']))
    vals = st.sampled_from([-2.0, -1.0, 0.0, 0.5, 1.0, 2.0, 3.0])
    re = [[draw(vals) for _ in range(n)] for _ in range(m)]
    im = [[draw(vals) for _ in range(n)] for _ in range(m)]
    dre = [draw(vals) for _ in range(n)]
    dim = [draw(st.sampled_from([-1.0, 1.0, 2.0, 0.5])) for _ in range(n)]
    dt = draw(st.sampled_from(['float32', 'float64'])) if mode == 'x64' else 'float32'
    return {'complex': {'kind': kind, 'n': n, 'm': m, 'extra': extra, 're': re, 'im': im, 'dre': dre, 'dim': dim,
                        'dtype': dt, 'seed': draw(st.integers(0, 50)),
                        # complex DATA as well (then input and output dtypes agree and the transpose is judged too)
                        'cdata': draw(st.booleans())}}


def _check_complex(r, mode):
    import jax
    import jax.numpy as jnp

    from furax._base.core import AbstractLinearOperator
    from furax._base.dense import DenseBlockDiagonalOperator
    from furax._base.diagonal import BroadcastDiagonalOperator, DiagonalOperator

    n, m, extra = r['n'], r['m'], tuple(r['extra'])
    dt = r['dtype']
    cdt = 'complex64' if dt == 'float32' else 'complex128'
    cdata = bool(r.get('cdata')) and not r['kind'].startswith('hom')
    if r['kind'] in ('blockrow', 'blockcol') and not cdata:
        # (a complex and a real block do not share an output dtype: such a row, or the transpose of such a column, is refused)
        cdata = True
    ddt = cdt if cdata else dt
    S = jax.ShapeDtypeStruct((n,) + extra, jnp.dtype(ddt))
    B = np.asarray(r['re'], dtype=float) + 1j * np.asarray(r['im'], dtype=float)
    d = np.asarray(r['dre'], dtype=float) + 1j * np.asarray(r['dim'], dtype=float)
    e = int(np.prod(extra)) if extra else 1
    if r['kind'].startswith('hom'):
        from furax._base.core import HomothetyOperator

        if r['kind'] == 'hom_complex':
            v = complex(r['dre'][0], r['dim'][0])
            op = must_not_raise('build', HomothetyOperator, v, S)
            M = v * np.eye(n * e)
        else:
            # a fractional scalar on an integer structure (mv promotes to a floating dtype)
            S = jax.ShapeDtypeStruct((n,) + extra, jnp.dtype('int32'))
            dt = 'int32'
            v = [0.5, 2.5, -0.25, 4.0][r['seed'] % 4]
            op = must_not_raise('build', HomothetyOperator, v, S)
            M = v * np.eye(n * e)
            if r['kind'] == 'hom_int_inv':
                op = must_not_raise('inverse', lambda: op.I)
                M = (1.0 / v) * np.eye(n * e)
    elif r['kind'] == 'bdiag':
        op = must_not_raise('build', DiagonalOperator if False else BroadcastDiagonalOperator, jnp.asarray(d, dtype=cdt),
                            axis_destination=0, in_structure=S)
        M = np.kron(np.diag(d), np.eye(e))
    elif r['kind'].startswith('block'):
        # block operators whose blocks are wider than the data (complex coefficients on real input), next to a real block
        from furax._base.blocks import BlockColumnOperator, BlockDiagonalOperator, BlockRowOperator

        Br = np.asarray(r['im'], dtype=float) + 1.0
        d1 = DenseBlockDiagonalOperator(jnp.asarray(B, dtype=cdt), S)
        d2 = DenseBlockDiagonalOperator(jnp.asarray(Br, dtype=dt), S)
        two = r['seed'] % 2 == 0
        blocks = ([d1, d2] if two else [d2, d1])
        mats = [np.kron(B, np.eye(e)), np.kron(Br, np.eye(e))] if two else [np.kron(Br, np.eye(e)), np.kron(B, np.eye(e))]
        cont = {'b': blocks[0], 'a': blocks[1]} if r['seed'] % 3 == 0 else (tuple(blocks) if r['seed'] % 3 == 1 else list(blocks))
        if isinstance(cont, dict):
            mats = mats[::-1]  # JAX flattens dicts in sorted key order: 'a' (the second block) first
        if r['kind'] == 'blockdiag':
            op = must_not_raise('build', BlockDiagonalOperator, cont)
            M = np.block([[mats[0], np.zeros_like(mats[1])], [np.zeros_like(mats[0]), mats[1]]])
        elif r['kind'] == 'blockrow':
            op = must_not_raise('build', BlockRowOperator, cont)
            M = np.hstack(mats)
        else:
            op = must_not_raise('build', BlockColumnOperator, cont)
            M = np.vstack(mats)
    else:
        dense = must_not_raise('build', DenseBlockDiagonalOperator, jnp.asarray(B, dtype=cdt), S)
        M = np.kron(B, np.eye(e))
        if r['kind'] == 'dense_then_real':
            dr = np.asarray(r['dre'], dtype=float)
            op = dense @ DiagonalOperator(jnp.asarray(dr, dtype=dt), axis_destination=0, in_structure=S)
            M = M @ np.kron(np.diag(dr), np.eye(e))
        elif r['kind'] == 'real_then_dense':
            op = -dense
            M = -M
        else:
            op = dense
    nin = M.shape[1]
    x = (((np.arange(nin) * 3 + r['seed']) % 7) - 3).astype(float)
    if cdata:
        x = x + 1j * ((((np.arange(nin) * 5 + r['seed']) % 5) - 2).astype(float))
    ins = op.in_structure()
    in_leaves, in_def = jax.tree.flatten(ins)
    parts, pos = [], 0
    for l_ in in_leaves:
        sz = int(np.prod(l_.shape))
        parts.append(jnp.asarray(x[pos:pos + sz].reshape(l_.shape), dtype=l_.dtype))
        pos += sz
    xv = jax.tree.unflatten(in_def, parts)
    y = must_not_raise('mv', op.mv, xv)
    want = M @ x
    got = np.concatenate([np.asarray(l_).reshape(-1) for l_ in jax.tree.leaves(y)])
    tol = 1e-5 * (1 + np.abs(want).max(initial=0))
    if got.shape != want.shape or np.abs(got - want).max(initial=0) > tol:
        raise Violation('complex:mv', f'op(x) = {got[:4]} but the reference gives {want[:4]}')
    forms = [('as_matrix', op.as_matrix), ('generic-as_matrix', lambda: AbstractLinearOperator.as_matrix(op))]
    if r['kind'].startswith('hom'):
        # a fractional scalar on an INTEGER structure (or a complex one on a real structure) is a parameter wider than the data: the operator is declared
        # square, so its declared output dtype (int32) is not what mv returns (outside C05's domain) and the generic
        # construction, which allocates in the declared dtype, is not judged; the class's own as_matrix is
        forms = forms[:1]
    for name, f in forms:
        A = np.asarray(must_not_raise('complex:' + name, f))
        if A.shape != M.shape or np.abs(A - M).max(initial=0) > 1e-5 * (1 + np.abs(M).max(initial=0)):
            raise Violation('complex:' + name, f'{name}() differs from the matrix of basis applications (complex coefficients on {dt} input): '
                                               f'dtype {A.dtype}, max diff {np.abs(A - M).max(initial=0) if A.shape == M.shape else A.shape}')
        if np.abs((A @ x) - got).max(initial=0) > tol:
            raise Violation('complex:mv-vs-' + name, f'op(x) differs from {name}() @ flatten(x)')
    if cdata:
        # the transpose of an operator with complex coefficients is the TRANSPOSE (no conjugation): <A x, y> = <x, A.T y>
        # with the bilinear pairing, i.e. the dense matrix of A.T is M.T
        T = must_not_raise('complex:transpose', lambda: op.T)
        yl, ydef = jax.tree.flatten(y)
        yv = (((np.arange(M.shape[0]) * 5 + r['seed']) % 5) - 2).astype(float) + 1j * ((((np.arange(M.shape[0]) * 3 + r['seed']) % 3) - 1).astype(float))
        parts, pos = [], 0
        for l_ in yl:
            sz = int(np.prod(l_.shape))
            parts.append(jnp.asarray(yv[pos:pos + sz].reshape(l_.shape), dtype=l_.dtype))
            pos += sz
        z = must_not_raise('complex:T-mv', T.mv, jax.tree.unflatten(ydef, parts))
        gz = np.concatenate([np.asarray(l_).reshape(-1) for l_ in jax.tree.leaves(z)])
        wz = M.T @ yv
        if gz.shape != wz.shape or np.abs(gz - wz).max(initial=0) > 1e-5 * (1 + np.abs(wz).max(initial=0)):
            raise Violation('complex:T-value', f'op.T(y) = {gz[:4]} but the transposed matrix gives {wz[:4]} (complex coefficients on {ddt} input)')
    return {'nontrivial': True, 'classes': ['complex:' + r['kind']] + (['complex_data'] if cdata else [])}


@st.composite
def wide_case(draw, tier, mode):
    """Sizes beyond the small expressions: block operators with 9-17 blocks (their dense forms are hand-written), and
    an input pytree whose first leaf has a few hundred elements under the GENERIC dense form."""
    if draw(st.booleans()):
        from .c10 import single_case

        c = dict(draw(single_case(mode, wide=True, allow_cg=False)))
        c.pop('mode', None)
        c['generic'] = False
    else:
        G = gen.GenCtx(mode, cap=400)
        n1 = draw(st.sampled_from([257, 300, 384, 512, 600]))
        shape1 = draw(st.sampled_from([[n1], [3, n1 // 3], [n1 // 4, 4]]))
        S = {'t': draw(st.sampled_from(['tuple', 'list'])), 'items': [St.leaf(shape1, 'float32'), St.leaf([draw(st.integers(1, 4))], 'float32')]}
        kind = draw(st.sampled_from(['hom', 'diag1', 'id_sum']))
        if kind == 'hom':
            expr = {'k': 'hom', 'in': S, 'value': draw(st.sampled_from([2.0, -0.5, 3.0])), 'ty': 'py_float'}
        elif kind == 'diag1':
            expr = {'k': 'diag', 'in': S, 'vals': [draw(st.sampled_from([2.0, -3.0, 0.5]))], 'axis': -1, 'vdtype': 'float32'}
        else:
            expr = {'k': 'add', 'ops': [{'k': 'id', 'in': S}, {'k': 'hom', 'in': S, 'value': 2.0, 'ty': 'py_float'}], 'via': 'plus', 'tree': [0, 1]}
        c = {'defs': G.defs, 'expr': expr, 'generic': True, 'wide_generic': True}
    c['probe'] = draw(st.lists(st.integers(0, 1000), min_size=8, max_size=8))
    c['a'] = draw(st.sampled_from([1, -1, 2, 0.5]))
    c['b'] = draw(st.sampled_from([1, -2, 0.5]))
    return c


def strategy(tier, mode):
    return st.one_of(case_st(tier, mode), case_st(tier, mode), override_case(tier, mode), override_case(tier, mode),
                     complex_case(tier, mode), case_st(tier, mode), override_case(tier, mode), wide_case(tier, mode))


def check(case, mode):
    from furax._base.core import AbstractLinearOperator

    if 'complex' in case:
        return _check_complex(case['complex'], mode)
    defs = case.get('defs', [])
    den = ops.denote_case(case)
    op = must_not_raise('build', ops.build_case, case)
    n, m = den.M.shape[1], den.M.shape[0]
    eps = X.eps_of(den)
    p = case['probe']
    a, b = float(case['a']), float(case['b'])
    # ---- linearity
    x = np.array([((p[i % 8] + 3 * i) % 9) - 4 for i in range(n)], dtype=float)
    y = np.array([((p[(i + 5) % 8] * 3 + i) % 9) - 4 for i in range(n)], dtype=float)
    fx, _ = must_not_raise('mv', ops.apply_flat, op, den.in_S, x)
    fy, _ = must_not_raise('mv', ops.apply_flat, op, den.in_S, y)
    fxy, _ = must_not_raise('mv', ops.apply_flat, op, den.in_S, a * x + b * y)
    tol = 3 * (ops.tolerance(den, np.abs(a * x + b * y), eps) + abs(a) * ops.tolerance(den, np.abs(x), eps)
               + abs(b) * ops.tolerance(den, np.abs(y), eps))
    d = np.abs(fxy - (a * fx + b * fy))
    if (d > tol).any():
        i = int(np.argmax(d - tol))
        raise Violation('linearity', f'op(a x + b y)[{i}]={fxy[i]!r} but a op(x)+b op(y)={a * fx[i] + b * fy[i]!r}')
    # ---- as_matrix override / inherited
    M = np.asarray(must_not_raise('as_matrix', op.as_matrix), dtype=np.float64)
    _cmp_matrix(M, den, eps, 'as_matrix')
    classes = []
    # ---- mv == as_matrix @ flat(x)
    want = M @ x
    if np.abs(fx - want).max(initial=0) > (3 * ops.tolerance(den, np.abs(x), eps)).max(initial=0) + 1e-30:
        raise Violation('mv-vs-as_matrix', 'op(x) differs from as_matrix() @ flatten(x)')
    # ---- generic column-by-column implementation
    if case.get('generic') and (n <= 12 or case.get('wide_generic')):
        G = np.asarray(must_not_raise('generic-as_matrix', AbstractLinearOperator.as_matrix, op), dtype=np.float64)
        _cmp_matrix(G, den, eps, 'generic-as_matrix')
        classes.append('generic_as_matrix_run')
    # ---- declared sizes
    if must_not_raise('in_size', op.in_size) != n or must_not_raise('out_size', op.out_size) != m:
        raise Violation('sizes', f'in_size/out_size = {op.in_size()}/{op.out_size()} but the matrix is {m}x{n}')
    kinds = X.kinds_in(case['expr'], defs)
    ov = sorted(k for k in kinds if k in OVERRIDES)
    classes += ['override:' + k for k in ov]
    if 'block' in kinds:
        classes += ['override:block_' + bk for bk in ('row', 'col', 'diag') if 'block_' + bk in kinds]
    if St.nleaves(den.in_S) >= 2 or St.nleaves(den.out_S) >= 2:
        classes.append('multi_leaf')
    if case.get('wide_generic'):
        classes.append('generic_as_matrix_on_a_long_leaf')
    return {'nontrivial': bool(ov) or St.nleaves(den.in_S) >= 2 or St.nleaves(den.out_S) >= 2, 'classes': classes}


def _cmp_matrix(M, den, eps, key):
    if M.shape != den.M.shape:
        raise Violation(key + ':shape', f'shape {M.shape}, expected {den.M.shape}')
    n = den.M.shape[1]
    for j in range(n):
        e = np.zeros(n)
        e[j] = 1.0
        tol = 2 * ops.tolerance(den, e, eps)
        d = np.abs(M[:, j] - den.M[:, j])
        if (d > tol).any() or not np.all(np.isfinite(M[:, j])):
            i = int(np.argmax(d - tol))
            raise Violation(key, f'entry ({i},{j}): got {M[i, j]!r} want {den.M[i, j]!r} tol {tol[i]:.3g}')
