"""C01 - reduce() never changes the denoted linear map."""

from __future__ import annotations

from hypothesis import strategies as st

from .. import exprcheck as X
from .. import gen, ops
from .. import structs as St
from ..common import Violation, must_not_raise
from ..rulewatch import RuleWatch

PROP = 'C01'
EXAMPLES = {'quick': 120, 'thorough': 3000}
RULE = (
    'Hypothesis builds typed expression trees right-to-left (every composition well typed by construction): '
    'chains of 2-8 operands (<=14 thorough) mixing random operands, documented reducible patterns built with '
    'shared objects, and near-miss patterns (weights 5/3/2), nested in sums, block row/diag/column operators, '
    'transposes, scalar multiples and lazy inverses, over leaves, heterogeneous pytrees and Stokes containers. '
    'Oracle: r = op.reduce() returns without raising within a bounded number of rule calls, declares the same '
    'structures, and r(x) == op(x) on all basis vectors (<=16 inputs) or 12 probe vectors, within the forward '
    'error bound. non-trivial = at least one n-ary or binary rule fired during reduce(); distinct = canonical JSON.'
    ' Also: 0-d NumPy arrays (mutable) as scalar values, with the unreduced operator re-applied after reduce().'
)
ASSUMPTIONS = [
    'expressions of at most ~60 elements per structure; float32 (both modes) and float64 (x64 on) data',
    'operator parameters no wider than the data dtype; index arrays in bounds',
    'lazy CG inverses only of SPD operators with condition number <= ~25 (solver tolerance added to the bound)',
    'termination judged by a rule-call counter (50 000 calls), never by time',
]


def strategy(tier, mode):
    if tier == 'quick':
        return gen.expression_case(mode, cap=24, max_len=7, depth=2)
    return st.one_of(gen.expression_case(mode, cap=24, max_len=8, depth=2),
                     gen.expression_case(mode, cap=40, max_len=14, depth=3))


def check(case, mode):
    try:
        return _check(case, mode)
    except Violation as v:
        # known finding D10 (recorded for C05, same root cause): with 64-bit mode on, (P.T @ P).reduce() on a pytree
        # with float32 and float64 leaves returns every leaf in the promoted dtype; inside a longer chain a
        # transposition downstream then fails on the dtype of its cotangent. Only this symptom is re-keyed.
        from .c05 import _mixed_anywhere

        if mode == 'x64' and 'cotangent type does not match' in v.detail and 'raises:TypeError' in v.key \
                and _mixed_anywhere(case['expr'], case.get('defs', [])) and _has_PtP(case['expr'], case.get('defs', [])):
            raise Violation('reduce/TransposeIndexRule/mixed-leaf-dtypes', v.key + ': ' + v.detail)
        raise


def _has_PtP(r, defs) -> bool:
    """Does the expression contain an index operator both as itself and transposed (P.T @ P can form)?"""
    seen = {'idx': False, 'idxT': False}

    def walk(r, under_T):
        k = r['k']
        if k == 'ref':
            return walk(defs[r['i']], under_T)
        if k == 'index':
            seen['idxT' if under_T else 'idx'] = True
        elif k in ('compose', 'add', 'sub'):
            for o in r['ops']:
                walk(o, under_T)
        elif k in ('T', 'TG'):
            walk(r['op'], not under_T)
        elif k in ('scale', 'neg', 'pos', 'reduced', 'I'):
            walk(r['op'], under_T)
        elif k == 'block':
            for b in ops._block_leaves(r['blocks']):
                walk(b, under_T)
    walk(r, False)
    return seen['idx'] and seen['idxT']


def _check(case, mode):
    defs = case.get('defs', [])
    den = ops.denote_case(case)
    op = must_not_raise('build', ops.build_case, case)
    watch = RuleWatch.get()
    watch.reset()
    red = must_not_raise('reduce', op.reduce)
    fired = dict(watch.fired)
    X.same_declared(op, red, 'reduced-structure')
    X.compare_ops(op, red, den, case['probe'], 'reduce-changes-value')
    # second reduce: the result must itself be reducible without error and keep the value
    watch.reset()
    red2 = must_not_raise('reduce-twice', red.reduce)
    if watch.fired:
        X.compare_ops(op, red2, den, case['probe'], 'reduce-twice-changes-value')
    # sequences of operations: the transpose of the reduced operator, and the reduction of the transposed expression,
    # denote the transposed map (transposes of iterative inverses are unsupported by the library and skipped)
    if 'cg' not in den.flags:
        denT = ops.Den(den.M.T.copy(), den.A.T.copy(), den.out_S, den.in_S, den.flags, den.nf)
        redT = must_not_raise('transpose-of-reduced', lambda: red.T)
        X.compare_with_den(redT, denT, case['probe'], 'transpose-of-reduced-value', max_basis=6, factor=2.0)
        watch.reset()
        Tred = must_not_raise('reduce-of-transpose', lambda: op.T.reduce())
        X.compare_with_den(Tred, denT, case['probe'], 'reduce-of-transpose-value', max_basis=6, factor=2.0)
        for k_ in watch.fired:
            fired[k_] = fired.get(k_, 0) + watch.fired[k_]
    classes = ['rule:' + k for k in fired]
    kinds = X.kinds_in(case['expr'], defs)
    classes += ['kind:' + k for k in kinds]
    if 'cg' in den.flags:
        classes.append('has_lazy_cg_inverse')
    if St.nleaves(den.in_S) > 1:
        classes.append('multi_leaf_input')
    return {'nontrivial': bool(fired), 'classes': classes}
