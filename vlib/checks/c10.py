"""C10 - block operators act as the block matrices of their blocks."""

from __future__ import annotations

import numpy as np
from hypothesis import strategies as st

from .. import exprcheck as X
from .. import gen, ops
from .. import structs as St
from ..common import Violation, must_not_raise, must_raise
from ..rulewatch import RuleWatch

PROP = 'C10'
EXAMPLES = {'quick': 90, 'thorough': 2500}
RULE = (
    'Hypothesis draws block row / diagonal / column operators over containers of blocks (list, tuple, dict with '
    'unsorted insertion order, nested containers, a bare operator; arity 1-4) whose blocks are operators of every '
    'kind including blocks with pytree-valued inputs or outputs (a block column inside a block diagonal, Stokes-'
    'valued blocks); products of two block operators for the four rules with equal layouts and with layouts nested '
    'on one side only; and ill-formed rows/columns. Oracle: numpy hstack / vstack / block-diagonal of the block '
    'denotations in pytree-leaf order for mv, as_matrix and structures; Row.T is a BlockColumnOperator (and vice '
    'versa, Diag.T a BlockDiagonalOperator) with the transposed matrix; Diag.I is block-wise (class and value); '
    'ill-formed rows/columns raise ValueError at construction; (A @ B).reduce() never raises, keeps structures and '
    'value, and for equal layouts is a single operator of the documented class (AdditionOperator for row-times-'
    'column, or what that sum itself reduces to when it has one block). non-trivial = arity 1, nesting depth >= 2, '
    'a pytree-valued block, or a product.'
    ' Also: block operators with 9-17 blocks; an ill-formed block row whose well-formed twin (same container, classes, static fields and input structures) is constructed first; every single block operator is applied twice to host (NumPy) input leaves, one array object standing for every leaf it fits (acceptance of host arrays is not judged, values are).'
    ' Also: 9-17 blocks of one class (selections, reshapes, move-axes) with different outputs on one input structure.'
)
ASSUMPTIONS = [
    'sizes <= ~48 elements; lazy CG inverses inside block diagonals only of SPD blocks with condition number <= ~25',
]


def _container(draw, blocks):
    k = len(blocks)
    forms = ['list', 'tuple', 'dict']
    if k == 1:
        forms += ['bare', 'nested1']
    if k >= 2:
        forms += ['nested', 'nested2']
    form = draw(st.sampled_from(forms))
    if form == 'bare':
        return blocks[0]
    if form == 'nested1':
        return {'c': 'dict', 'items': [['a', {'c': 'tuple', 'items': [blocks[0]]}]]}
    if form == 'dict':
        keys = list(draw(st.permutations(['b', 'a', 'd', 'c'] + ['k%02d' % i for i in range(max(0, k - 4))])))[:k]
        return {'c': 'dict', 'items': [[key, b] for key, b in zip(keys, blocks)]}
    if form == 'nested':
        return {'c': 'dict', 'items': [['z', {'c': 'list', 'items': blocks[:-1]}], ['a', blocks[-1]]]}
    if form == 'nested2':
        return {'c': 'tuple', 'items': [blocks[0], {'c': 'list', 'items': blocks[1:]}]}
    return {'c': form, 'items': list(blocks)}


def _remap(c, new_blocks):
    """Same container shape as c with the op leaves (in insertion order) replaced."""
    it = iter(new_blocks)

    def rec(c):
        if ops._is_op(c):
            return next(it)
        if c['c'] == 'dict':
            return {'c': 'dict', 'items': [[k, rec(v)] for k, v in c['items']]}
        return {'c': c['c'], 'items': [rec(v) for v in c['items']]}

    return rec(c)


def _insertion_leaves(c):
    if ops._is_op(c):
        return [c]
    if c['c'] == 'dict':
        return [l for _, v in c['items'] for l in _insertion_leaves(v)]
    return [l for v in c['items'] for l in _insertion_leaves(v)]


@st.composite
def single_case(draw, mode, wide=False, allow_cg=True):
    G = gen.GenCtx(mode, cap=14, allow_cg=allow_cg)
    kind = draw(st.sampled_from(['row', 'col', 'diag']))
    k = draw(st.integers(1, 4))
    if wide or draw(st.integers(0, 7)) == 0:
        k = draw(st.sampled_from([9, 10, 11, 12, 13, 17]))  # wide block operators (one block per detector / per band)
    sub = max(2, 14 // k)
    struct_kinds = ('leaf', 'leaf', 'leaf', 'tuple', 'stokes', 'dict')
    if k >= 9 and kind != 'row' and draw(st.booleans()):
        # many blocks of ONE class on ONE input structure whose outputs differ (selections of different lengths, reshapes
        # to different shapes, axes moved to different places): nothing about one block says anything about the others
        S1 = St.leaf([2, 3], draw(st.sampled_from(gen.dtypes(mode))))
        cls_ = draw(st.sampled_from(['index', 'reshape', 'move']))
        blocks = []
        for _ in range(k):
            if cls_ == 'index':
                m_ = draw(st.integers(1, 3))
                blocks.append({'k': 'index', 'in': S1, 'idx': [{'a': [draw(st.integers(-2, 1)) for _ in range(m_)]}], 'explicit_out': False,
                               'unique': None, 'bare': True})
            elif cls_ == 'reshape':
                f_ = list(draw(st.sampled_from([[6], [3, 2], [1, 6], [6, 1], [2, 3, 1], [1, 2, 3]])))
                blocks.append({'k': 'reshape', 'in': S1, 'shape_arg': f_, 'shape': f_})
            else:
                a_, b_ = draw(st.sampled_from([(0, 1), (1, 0), (0, -1), (-1, 0), (0, 0)]))
                blocks.append({'k': 'move', 'in': S1, 'src': [a_], 'dst': [b_]})
        expr = {'k': 'block', 'kind': kind, 'blocks': _container(draw, blocks)}
        return {'mode': 'single', 'defs': G.defs, 'expr': expr, 'probe': draw(st.lists(st.integers(0, 1000), min_size=8, max_size=8))}
    if kind == 'col':
        S = draw(gen.structure(mode, cap=sub, kinds=struct_kinds))
        blocks = [gen.operand(draw, G, S, 1) for _ in range(k)]
    elif kind == 'diag':
        blocks = [gen.operand(draw, G, draw(gen.structure(mode, cap=sub, kinds=struct_kinds)), 1) for _ in range(k)]
    else:
        # row: blocks share the OUTPUT structure T: X_i.T for X_i with input T, or square operators on T
        T = draw(gen.structure(mode, cap=sub, kinds=struct_kinds))
        blocks = []
        for _ in range(k):
            if draw(st.booleans()):
                blocks.append(gen.operand(draw, G, T, 1, square=True))
            else:
                blocks.append({'k': 'T', 'op': gen.operand(draw, gen.GenCtx(mode, cap=14, allow_cg=False), T, 0)})
    expr = {'k': 'block', 'kind': kind, 'blocks': _container(draw, blocks)}
    return {'mode': 'single', 'defs': G.defs, 'expr': expr,
            'probe': draw(st.lists(st.integers(0, 1000), min_size=8, max_size=8))}


@st.composite
def product_case(draw, mode):
    G = gen.GenCtx(mode, cap=12)
    rule = draw(st.sampled_from(['row_diag', 'diag_col', 'diag_diag', 'row_col']))
    k = draw(st.integers(1, 3))
    T = draw(gen.structure(mode, cap=6, kinds=('leaf', 'leaf', 'stokes', 'tuple')))
    sq = lambda: gen.operand(draw, G, T, draw(st.integers(0, 1)), square=True)  # noqa: E731
    left_blocks = [sq() for _ in range(k)]
    right_blocks = [sq() for _ in range(k)]
    cont = _container(draw, left_blocks)
    right_cont = _remap(cont, right_blocks)
    lk, rk = {'row_diag': ('row', 'diag'), 'diag_col': ('diag', 'col'), 'diag_diag': ('diag', 'diag'),
              'row_col': ('row', 'col')}[rule]
    layout = 'equal'
    if draw(st.integers(0, 3)) == 0 and k >= 2 and not ops._is_op(cont):
        # nested on one side only: group the blocks of one side inside an inner block operator
        layout = 'one_side_nested'
        if draw(st.booleans()) and rk in ('diag',):
            inner = {'k': 'block', 'kind': 'diag', 'blocks': right_cont}
            right = {'k': 'block', 'kind': rk, 'blocks': inner}
            left = {'k': 'block', 'kind': lk, 'blocks': cont}
        elif lk == 'diag':
            inner = {'k': 'block', 'kind': 'diag', 'blocks': cont}
            left = {'k': 'block', 'kind': lk, 'blocks': inner}
            right = {'k': 'block', 'kind': rk, 'blocks': right_cont}
        else:
            layout = 'equal'
    if layout == 'equal':
        left = {'k': 'block', 'kind': lk, 'blocks': cont}
        right = {'k': 'block', 'kind': rk, 'blocks': right_cont}
    ctx_left = draw(st.booleans())
    ctx_right = draw(st.booleans())
    return {'mode': 'product', 'defs': G.defs, 'left': left, 'right': right, 'rule': rule, 'layout': layout,
            'ctx_left': ctx_left, 'ctx_right': ctx_right, 'arity': k,
            'probe': draw(st.lists(st.integers(0, 1000), min_size=8, max_size=8))}


@st.composite
def ill_case(draw, mode):
    G = gen.GenCtx(mode, cap=10)
    kind = draw(st.sampled_from(['row', 'col']))
    k = draw(st.integers(2, 3))
    S = draw(gen.structure(mode, cap=6, kinds=('leaf', 'leaf', 'stokes', 'tuple')))
    from .c02 import perturb

    if kind == 'row' and draw(st.integers(0, 2)) == 0:
        # same container, same block classes, same static fields, same INPUT structures: only the number of rows of one
        # dense block differs. The well-formed twin (all blocks with m rows) is constructed first, in the same process.
        n, m = draw(st.integers(1, 3)), draw(st.integers(1, 3))
        m_bad = draw(st.sampled_from([v for v in (1, 2, 3, 4) if v != m]))
        Sn = St.leaf([n], 'float32')

        def dense(rows):
            vals = [[float(draw(st.integers(-3, 3))) for _ in range(n)] for _ in range(rows)]
            return {'k': 'dense', 'in': Sn, 'blocks': {'shared': vals}, 'subscripts': '...ij,...j->...i', 'vdtype': 'float32'}
        good = [dense(m) for _ in range(k)]
        bad = draw(st.integers(0, k - 1))
        blocks = list(good)
        blocks[bad] = dense(m_bad)
        cont = draw(st.sampled_from(['list', 'tuple', 'dict']))
        mk = (lambda bl: {'c': 'dict', 'items': [[key, b] for key, b in zip(['a', 'b', 'c'], bl)]}) if cont == 'dict' else \
            (lambda bl: {'c': cont, 'items': list(bl)})
        return {'mode': 'ill', 'defs': G.defs, 'kind': kind, 'blocks': mk(blocks), 'valid_first': mk(good),
                'what': 'rows-of-one-dense-block', 'bad': bad}
    S2, what = perturb(draw, S, mode)
    blocks = [gen.leaf_operand(draw, G, S, square=True) for _ in range(k)]
    bad = draw(st.integers(0, k - 1))
    blocks[bad] = gen.leaf_operand(draw, G, S2, square=True)
    return {'mode': 'ill', 'defs': G.defs, 'kind': kind, 'blocks': _container(draw, blocks), 'what': what, 'bad': bad}


def strategy(tier, mode):
    return st.one_of(single_case(mode), single_case(mode), product_case(mode), product_case(mode), ill_case(mode))


def _pytree_valued(blocks, defs):
    for b in ops._block_leaves(blocks):
        if ops.in_of(b, defs)['t'] != 'leaf' or ops.out_of(b, defs)['t'] != 'leaf':
            return True
    return False


def check(recipe, mode):
    from furax._base.blocks import BlockColumnOperator, BlockDiagonalOperator, BlockRowOperator
    from furax._base.core import AdditionOperator, CompositionOperator

    defs = recipe.get('defs', [])
    cls_of = {'row': BlockRowOperator, 'col': BlockColumnOperator, 'diag': BlockDiagonalOperator}
    if recipe['mode'] == 'ill':
        b = ops.Builder(defs)
        if recipe.get('valid_first'):
            must_not_raise('well-formed-twin', cls_of[recipe['kind']], b._container(recipe['valid_first']))
        cont = must_not_raise('build-blocks', b._container, recipe['blocks'])
        name = must_raise(f'ill-formed-{recipe["kind"]}', cls_of[recipe['kind']], cont, exc=(ValueError,))
        return {'nontrivial': True, 'classes': ['ill:' + recipe['kind'], 'ill-diff:' + recipe['what']]}

    if recipe['mode'] == 'single':
        case = {'defs': defs, 'expr': recipe['expr']}
        expr = recipe['expr']
        den = ops.denote_case(case)
        op = must_not_raise('build', ops.build_case, case)
        if type(op) is not cls_of[expr['kind']]:
            raise Violation('class', f'built {type(op).__name__}')
        X.check_structures(op, den, 'structure')
        X.compare_with_den(op, den, recipe['probe'], 'value')
        eps = X.eps_of(den)
        host = _host_input(op, den, recipe['probe'], eps)
        M = np.asarray(must_not_raise('as_matrix', op.as_matrix), dtype=np.float64)
        from .c04 import _cmp_matrix

        _cmp_matrix(M, den, eps, 'as_matrix')
        # transpose: class and value
        kinds = X.kinds_in(expr, defs)
        classes = ['single:' + expr['kind']] + host
        if 'cg' not in den.flags:
            T = must_not_raise('transpose', lambda: op.T)
            want_cls = {'row': BlockColumnOperator, 'col': BlockRowOperator, 'diag': BlockDiagonalOperator}[expr['kind']]
            if type(T) is not want_cls:
                raise Violation('T-class', f'{type(op).__name__}.T is a {type(T).__name__}')
            denT = ops.Den(den.M.T.copy(), den.A.T.copy(), den.out_S, den.in_S, den.flags, den.nf)
            X.check_structures(T, denT, 'T-structure')
            X.compare_with_den(T, denT, recipe['probe'], 'T-value')
            classes.append('transposed')
        # block-wise inverse of a block diagonal of square invertible blocks
        if expr['kind'] == 'diag':
            bl = ops._block_leaves(expr['blocks'])
            dens = [ops.denote(b, defs, {}) for b in bl]
            if all(St.equal(d.in_S, d.out_S) and abs(np.linalg.det(d.M)) > 1e-3 and np.linalg.cond(d.M) < 50 and
                   _invertible_kind(b, defs) for b, d in zip(bl, dens)):
                with ops.quiet_config():
                    inv = must_not_raise('inverse', lambda: op.I)
                if type(inv) is not BlockDiagonalOperator:
                    raise Violation('I-class', f'BlockDiagonalOperator.I is a {type(inv).__name__}')
                caseI = {'defs': defs, 'expr': {'k': 'I', 'op': expr}}
                denI = ops.denote_case(caseI)
                if any(not ops.closed_form_inverse(b, defs) for b in bl):
                    denI.flags.add('cg')
                X.check_structures(inv, denI, 'I-structure')
                X.compare_with_den(inv, denI, recipe['probe'], 'I-value')
                classes.append('block_inverse')
        arity = len(ops._block_leaves(expr['blocks']))
        depth = ops.container_depth(expr['blocks'])
        pv = _pytree_valued(expr['blocks'], defs)
        classes += [f'arity:{min(arity, 4)}', f'depth:{depth}'] + (['pytree_valued_block'] if pv else [])
        return {'nontrivial': arity == 1 or depth >= 2 or pv, 'classes': classes}

    # product of two block operators
    left, right = recipe['left'], recipe['right']
    opsl = [left, right]
    in_S = ops.in_of(right, defs)
    out_S = ops.out_of(left, defs)
    if recipe['ctx_left']:
        opsl = [{'k': 'hom', 'in': out_S, 'value': 2.0, 'ty': 'py_float'}] + opsl if out_S['t'] else opsl
    if recipe['ctx_right']:
        opsl = opsl + [{'k': 'diag', 'in': in_S, 'vals': [2.0], 'axis': -1, 'vdtype': 'float32'}] \
            if all(len(sh) >= 1 for sh, _ in St.leaves(in_S)) else opsl
    case = {'defs': defs, 'expr': {'k': 'compose', 'ops': opsl, 'via': 'list', 'tree': None}}
    den = ops.denote_case(case)
    op = must_not_raise('build', ops.build_case, case)
    watch = RuleWatch.get()
    watch.reset()
    red = must_not_raise('product-reduce', op.reduce)
    fired = dict(watch.fired)
    X.same_declared(op, red, 'product-reduced-structure')
    X.compare_ops(op, red, den, recipe['probe'], 'product-reduced-value')
    X.compare_with_den(red, den, recipe['probe'], 'product-reduced-vs-reference', max_basis=8)
    classes = ['product:' + recipe['rule'], 'layout:' + recipe['layout']]
    if recipe['layout'] == 'equal' and len(opsl) == 2:
        classes.append('bare_pair')
        want = {'row_diag': (BlockRowOperator,), 'diag_col': (BlockColumnOperator,),
                'diag_diag': (BlockDiagonalOperator,), 'row_col': (AdditionOperator,)}[recipe['rule']]
        ok = isinstance(red, want)
        if recipe['rule'] == 'row_col' and recipe['arity'] == 1:
            ok = not isinstance(red, (BlockRowOperator, BlockColumnOperator)) and not (
                isinstance(red, CompositionOperator) and any(
                    isinstance(o, (BlockRowOperator, BlockColumnOperator)) for o in red.operands))
        if recipe['rule'] == 'diag_diag' and not ok:
            # a block diagonal whose reduced blocks are all identities is itself reduced to the identity
            from furax._base.core import IdentityOperator

            ok = isinstance(red, IdentityOperator)
        if not ok:
            raise Violation('product-not-simplified:' + recipe['rule'],
                            f'{recipe["rule"]} with equal layouts reduced to {type(red).__name__}')
    return {'nontrivial': True, 'classes': classes + ['rule:' + k for k in fired]}


def _host_input(op, den, probe, eps):
    """Host (NumPy) input leaves, one array object standing for every leaf it fits; applied twice. Whether host arrays
    are accepted at all is not judged (some operators need jax arrays); when they are, both results are M x."""
    import jax

    n = den.M.shape[1]
    xf = np.array([((probe[i % 8] * 3 + 7 * i) % 7) - 3 for i in range(n)], dtype=float)
    leaves, treedef = jax.tree.flatten(St.value_from_flat(den.in_S, xf))
    share = probe[2] % 2 == 0
    cache, host = {}, []
    for l in leaves:
        k_ = (tuple(l.shape), str(l.dtype))
        if not (share and k_ in cache):
            cache[k_] = np.array(l)
        host.append(cache[k_] if share else np.array(l))
    x = jax.tree.unflatten(treedef, host)
    flat = np.concatenate([a.reshape(-1) for a in host]).astype(np.float64) if host else np.zeros(0)
    want = den.M @ flat
    tol = 2 * ops.tolerance(den, np.abs(flat), eps)
    for rep in (1, 2):
        try:
            y = op.mv(x)
        except Exception:  # noqa: BLE001
            return ['host_input_not_accepted']
        got = St.flat_of_value(y)
        if got.shape != want.shape or (np.abs(got - want) > tol).any():
            i = int(np.argmax(np.abs(got - want) - tol)) if got.shape == want.shape else 0
            raise Violation('host-input-value', f'application #{rep} to NumPy input leaves{" (one array object used for several leaves)" if share and len(cache) < len(host) else ""}: '
                                                f'element {i}: got {got[i] if got.shape == want.shape else got.shape} want {want[i] if got.shape == want.shape else want.shape}')
    return ['host_input'] + (['host_input_shared_leaf_object'] if share and len(cache) < len(host) else [])


def _invertible_kind(b, defs):
    """Is the inverse of this block one the harness can predict (closed form or SPD by construction)?"""
    while b['k'] == 'ref':
        b = defs[b['i']]
    if ops.closed_form_inverse(b, defs):
        return True
    return False
