"""Shared small pieces: the Violation exception, case statistics, canonical hashing."""

from __future__ import annotations

import hashlib
import json
from typing import Any


class Violation(Exception):
    """Raised by a check when the property fails on a case.

    key    : root-cause bucket (oracle name / call site / pattern); used for bucketing and for
             matching KNOWN_FINDINGS.txt ``known:`` lines.
    detail : human readable description of what failed.
    """

    def __init__(self, key: str, detail: str = ''):
        super().__init__(f'{key}: {detail}')
        self.key = key
        self.detail = detail


class Skip(Exception):
    """Raised by a check when a generated case is outside the property's domain (counted)."""


def canon(recipe: Any) -> str:
    return json.dumps(recipe, sort_keys=True, separators=(',', ':'), default=_default)


def _default(o: Any) -> Any:
    import numpy as np

    if isinstance(o, np.ndarray):
        return o.tolist()
    if isinstance(o, (np.integer,)):
        return int(o)
    if isinstance(o, (np.floating,)):
        return float(o)
    if isinstance(o, (np.bool_,)):
        return bool(o)
    if isinstance(o, (set, frozenset)):
        return sorted(o)
    if isinstance(o, tuple):
        return list(o)
    raise TypeError(f'not JSON serialisable: {type(o)}')


def rhash(recipe: Any) -> str:
    return hashlib.sha256(canon(recipe).encode()).hexdigest()[:14]


def derive_seed(*parts: Any) -> int:
    h = hashlib.sha256('|'.join(str(p) for p in parts).encode()).digest()
    return int.from_bytes(h[:8], 'big')


def must_not_raise(key: str, fn: Any, *args: Any, **kw: Any) -> Any:
    """Call furax code that the property says must succeed; an exception is a violation."""
    try:
        return fn(*args, **kw)
    except Violation:
        raise
    except Exception as e:  # noqa: BLE001
        raise Violation(f'{key}:raises:{type(e).__name__}', f'{type(e).__name__}: {str(e)[:300]}')


def must_raise(key: str, fn: Any, *args: Any, exc: tuple = (Exception,), **kw: Any) -> str:
    """Call furax code that the property says must be rejected."""
    try:
        r = fn(*args, **kw)
    except exc as e:
        return type(e).__name__
    except Exception as e:  # noqa: BLE001
        raise Violation(
            f'{key}:wrong-exception:{type(e).__name__}',
            f'expected {[x.__name__ for x in exc]}, got {type(e).__name__}: {str(e)[:200]}',
        )
    raise Violation(f'{key}:accepted', f'no error raised, returned {type(r).__name__}')
