#!/bin/bash
# usage: keep_seed.sh <agent out dir mN> <seed id, e.g. C12-m1> <caught-by text>
src=$1; id=$2; caught=$3
dst=/verif/seeded/$id
mkdir -p $dst
cp $src/patch.diff $dst/patch.diff
cp $src/demo.py $dst/demo.py
/venv/bin/python - "$src" "$dst" "$id" "$caught" <<'PY'
import json, sys, os
src, dst, sid, caught = sys.argv[1:5]
m = json.load(open(os.path.join(src, 'meta.json')))
name = sid.replace('-', '_')
res = open(f'/tmp/cs/{name}.result').read().strip() if os.path.exists(f'/tmp/cs/{name}.result') else ''
out = {
    'id': sid,
    'property': m.get('property'),
    'summary': m.get('summary'),
    'needs': m.get('needs'),
    'files': m.get('files'),
    'origin': 'independent sub-agent given only the property text and a scratch worktree',
    'confirmed_by_me': res,
    'ran': 'tools/confirm_seed.sh (demo without/with the patch, full suite vs HEAD baseline) and tools/try_seed.sh <patch> <property> quick',
    'caught_by': caught,
}
json.dump(out, open(os.path.join(dst, 'meta.json'), 'w'), indent=1)
PY
echo kept $id
