#!/bin/bash
# usage: confirm_seed.sh <dir with patch.diff demo.py> <name>
# Confirms a seeded change: patch applies to /repo HEAD, demo passes without and fails with it,
# and the repo's suite loses no baseline-passing test. Works in a scratch worktree, removed afterwards.
set -u
src=$1; name=$2
wt=/tmp/cs/wt_$name
res=/tmp/cs/$name.result
rm -rf $wt; git -C /repo worktree prune
git -C /repo worktree add -f --detach $wt HEAD >/dev/null 2>&1 || { echo "worktree failed" > $res; exit 1; }
cd $wt
PYTHONPATH=$wt/src /venv/bin/python $src/demo.py > /tmp/cs/$name.demo0.log 2>&1; d0=$?
if ! git apply $src/patch.diff 2>/tmp/cs/$name.apply.log; then echo "patch does not apply" > $res; cd /; git -C /repo worktree remove --force $wt; exit 1; fi
PYTHONPATH=$wt/src /venv/bin/python $src/demo.py > /tmp/cs/$name.demo1.log 2>&1; d1=$?
if [ "${SKIP_SUITE:-0}" = "1" ]; then suite="skipped"; else
PYTHONPATH=$wt/src nice -n 10 /venv/bin/python -m pytest -q -p no:cacheprovider --timeout=900 --continue-on-collection-errors --junitxml=/tmp/cs/$name.xml > /tmp/cs/$name.suite.log 2>&1
suite=$(/venv/bin/python /verif/tools/suite_compare.py /tmp/cs/base_head.xml /tmp/cs/$name.xml | head -1)
fi
cd /; git -C /repo worktree remove --force $wt
rm -f /tmp/cs/$name.suite.log /tmp/cs/$name.xml
echo "demo_unchanged_exit=$d0 demo_changed_exit=$d1 suite: $suite" > $res
cat $res
