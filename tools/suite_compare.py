#!/usr/bin/env python3
"""Compare a junit xml of the repo's suite against the baseline junit: every baseline-passing test must still pass."""
import sys, xml.etree.ElementTree as ET
def passed(path):
    out=set()
    for tc in ET.parse(path).getroot().iter('testcase'):
        if not any(c.tag in ('failure','error','skipped') for c in tc):
            out.add(tc.get('classname')+'::'+tc.get('name'))
    return out
b=passed(sys.argv[1]); n=passed(sys.argv[2])
lost=sorted(b-n)
print(f'baseline pass={len(b)} new pass={len(n)} lost={len(lost)} gained={len(n-b)}')
for l in lost[:30]: print('LOST',l)
sys.exit(1 if lost else 0)
