#!/usr/bin/env python3
"""MANIFEST.setup_cmd: verifies (and if needed installs, offline) what the checks import."""
import os
import subprocess
import sys

HERE = os.path.dirname(os.path.dirname(os.path.abspath(__file__)))


def main() -> int:
    try:
        import hypothesis  # noqa: F401
    except ImportError:
        deps = os.path.join(HERE, '.deps')
        rc = subprocess.call([sys.executable, '-m', 'pip', 'install', '--no-index', '--find-links',
                              '/opt/veriftools/wheels', '--target', deps, 'hypothesis'])
        if rc != 0:
            print('could not install hypothesis from the offline wheelhouse')
            return 1
    sys.path.insert(0, '/repo/src')
    import numpy, scipy, jax, healpy  # noqa: F401,E401
    import furax  # noqa: F401

    print('setup ok: hypothesis', __import__('hypothesis').__version__, 'jax', jax.__version__,
          'furax from', furax.__file__)
    return 0


if __name__ == '__main__':
    sys.exit(main())
