#!/usr/bin/env python3
"""Regenerates /verif/MANIFEST.json from the table below (run after adding a check)."""
import json
import os
import sys

HERE = os.path.dirname(os.path.dirname(os.path.abspath(__file__)))
sys.path.insert(0, HERE)

PY = '/venv/bin/python'

# property id -> (technique, level text, level note, design ref)
CHECKS = {
    'C12': (
        'property-based testing (Hypothesis index-expression grammar) against a numpy indexing / np.add.at / selection-matrix oracle',
        'Generated search: thousands of index expressions and pack masks per run, both 64-bit modes, every '
        'case compared exactly with numpy x[idx], the np.add.at scatter and S S^T / S^T S of the numpy selection '
        'matrix. Exploration only: no absence claim beyond the sizes and case counts reported in the evidence.',
        'Trusts numpy advanced indexing as the specification of "x[indices]"; in-bounds indices; leaves <= 60 elements.',
        'DESIGN.md section 4 (C12)',
    ),
}

EXPL = ('Exploration only: no absence claim beyond the sizes, modes and case counts reported in the evidence; '
        'sensitivity against seeded changes is recorded in DESIGN.md section 7.')

CHECKS.update({
    'C01': (
        'property-based testing: Hypothesis type-directed expression generator (random operands, pattern and near-miss snippets) with a metamorphic oracle (reduce() vs the unreduced expression) and a rule-call counter for termination',
        'Generated search over typed operator expression trees (chains, sums, blocks, transposes, scalar multiples, '
        'lazy inverses; both 64-bit modes): reduce() must not raise, must terminate within a bounded number of rule '
        'calls, keep the declared structures and agree with the unreduced operator on all basis / probe vectors within '
        'a forward error bound. Every registered rule is required to fire in the thorough tier. ' + EXPL,
        'Trusts eager application of the unreduced operator as the reference for "the same map" (the numpy model is only used for the error scale); small sizes; float32/float64.',
        'DESIGN.md section 4 (C01)'),
    'C02': (
        'property-based testing: Hypothesis arithmetic-tree generator with a numpy matrix-arithmetic reference model, plus generated ill-typed operand pairs that must be rejected',
        'Generated arithmetic trees over @ + - unary +/- and scalar multiples/divisions with every operand kind on '
        'either side are compared with numpy arithmetic on the operand matrices; generated structurally incompatible '
        'pairs (every ordered pair of operand kinds x kind of mismatch) and non-scalar scalars must raise. ' + EXPL,
        'Trusts the numpy reference model of the leaf operators (itself cross-validated by C03/C04/C11-C15 checks).',
        'DESIGN.md section 4 (C02)'),
    'C03': (
        'property-based testing: Hypothesis expression generator with a numpy transposed-matrix oracle, the adjoint identity on integer vectors and a differential check hand-written vs generic (jax.linear_transpose) transpose',
        'For generated operators and composites op.T must have swapped structures, denote the transposed numpy '
        'matrix, op.T.T must denote the matrix again, <Ax,y> = <x,A^T y>, and the generic TransposeOperator must '
        'agree with every hand-written transpose. ' + EXPL,
        'Transposes of iterative inverses excluded as in the property; numpy reference model trusted.',
        'DESIGN.md section 4 (C03)'),
    'C04': (
        'property-based testing: Hypothesis expression generator (half of the cases with an as_matrix-overriding class on top) against a numpy matrix assembled in the documented leaf/row-major order; metamorphic linearity check',
        'op(a x + b y) = a op(x) + b op(y); op.as_matrix(), the generic column-by-column as_matrix and op.mv are all '
        'compared with the numpy denotation assembled in pytree-leaf, row-major order. ' + EXPL,
        'numpy reference model trusted; generic as_matrix run on inputs of <= 12 elements (XLA compile per call). Complex-valued operator data not generated.',
        'DESIGN.md section 4 (C04)'),
    'C05': (
        'property-based testing: Hypothesis expression generator over float32/float64/mixed-dtype pytrees with a four-way structure agreement oracle (declared vs actual vs traced vs pure-python structure rule)',
        'For op, op.T, op.reduce() (and op.I): out_structure() == structure of mv(x) == jax.eval_shape(mv) == the '
        'harness structure rule, exactly (tree, shapes, dtypes); sizes and promoted dtypes agree. One known finding '
        '(mixed-dtype P.T@P reduction) is reported as KNOWN-FINDING. ' + EXPL,
        'Operator parameters no wider than the data dtype, as the property states.',
        'DESIGN.md section 4 (C05)'),
    'C10': (
        'property-based testing: Hypothesis block-container generator (arity 1-4, nested/dict/bare containers, pytree-valued blocks, products with equal and one-side-nested layouts, ill-formed rows/columns) against numpy hstack/vstack/block-diagonal',
        'Block row/diag/column operators are compared with the stacked numpy matrices of their blocks (mv, as_matrix, '
        'structures), transposes and block-wise inverses by class and value, ill-formed constructions must raise '
        'ValueError, products of block operators must reduce without error, keep the value and (equal layouts) have '
        'the documented class. ' + EXPL,
        'numpy reference model trusted; sizes <= ~48 elements.',
        'DESIGN.md section 4 (C10)'),
})

NOT_YET = 'check not built yet in this round (planned, see DESIGN.md section 4)'


def main():
    props = [json.loads(l)['id'] for l in open(os.path.join(HERE, 'properties.jsonl'))]
    checks = []
    for pid in props:
        if pid not in CHECKS:
            continue
        tech, text, note, ref = CHECKS[pid]
        checks.append({
            'property_id': pid,
            'quick_cmd': f'{PY} run_check.py {pid} --tier quick',
            'thorough_cmd': f'{PY} run_check.py {pid} --tier thorough',
            'evidence_file': f'/verif/evidence/{pid}.json',
            'replay_cmd_template': f'{PY} run_check.py {pid} --replay {{path}}',
            'engine': 'furax-pbt',
            'level_claimed': {'category': 'exploration', 'text': text, 'design_ref': ref},
            'level_note': note,
            'technique': tech,
        })
    man = {
        'version': 1,
        'setup_cmd': f'{PY} tools/setup_check.py',
        'hooks': {
            'guard': 'FURAX_VERIF',
            'enable': 'none needed: no instrumentation was added to /repo; checks import furax from /repo/src of the '
                      'current working tree (PYTHONPATH) and wrap rule instances from the harness side',
            'baseline_off_cmd': 'cd /repo && /venv/bin/python -m pytest -ra -q -p no:cacheprovider --timeout=900 '
                                '--continue-on-collection-errors',
            'source_commits': [],
            'add_only': True,
        },
        'engines': [{
            'name': 'furax-pbt',
            'path': '/verif/run_check.py',
            'serves_properties': [c['property_id'] for c in checks],
            'kind_free_text': 'Hypothesis-driven generated search over JSON recipes with numpy reference models; '
                              'sharded over 16 worker processes covering 64-bit mode on and off; shrinks failures to '
                              'replay files; exhaustive enumeration for small finite sub-domains',
        }],
        'checks': checks,
        'notes': 'All checks: exit 0 held / exit 1 with VIOLATION line / exit 2 harness error or inconclusive. '
                 'VERIF_SEED selects the Hypothesis seeds (default 1). Known findings: /verif/KNOWN_FINDINGS.txt.',
        'not_applicable': [{'property_id': p, 'reason': NOT_YET} for p in props if p not in CHECKS],
    }
    with open(os.path.join(HERE, 'MANIFEST.json'), 'w') as fh:
        json.dump(man, fh, indent=1)
    print('wrote MANIFEST.json with', len(checks), 'checks')


if __name__ == '__main__':
    main()
