#!/usr/bin/env python3
"""Regenerates /verif/MANIFEST.json from the table below (run after adding a check)."""
import json
import os
import sys

HERE = os.path.dirname(os.path.dirname(os.path.abspath(__file__)))
sys.path.insert(0, HERE)

PY = '/venv/bin/python'

# property id -> (technique, level text, level note, design ref)
CHECKS = {
    'C12': (
        'property-based testing (Hypothesis index-expression grammar) against a numpy indexing / np.add.at / selection-matrix oracle',
        'Generated search: thousands of index expressions and pack masks per run, both 64-bit modes, every '
        'case compared exactly with numpy x[idx], the np.add.at scatter and S S^T / S^T S of the numpy selection '
        'matrix. Exploration only: no absence claim beyond the sizes and case counts reported in the evidence.',
        'Trusts numpy advanced indexing as the specification of "x[indices]"; in-bounds indices; leaves <= 60 elements.',
        'DESIGN.md section 4 (C12)',
    ),
}

NOT_YET = 'check not built yet in this round (planned, see DESIGN.md section 4)'


def main():
    props = [json.loads(l)['id'] for l in open(os.path.join(HERE, 'properties.jsonl'))]
    checks = []
    for pid in props:
        if pid not in CHECKS:
            continue
        tech, text, note, ref = CHECKS[pid]
        checks.append({
            'property_id': pid,
            'quick_cmd': f'{PY} run_check.py {pid} --tier quick',
            'thorough_cmd': f'{PY} run_check.py {pid} --tier thorough',
            'evidence_file': f'/verif/evidence/{pid}.json',
            'replay_cmd_template': f'{PY} run_check.py {pid} --replay {{path}}',
            'engine': 'furax-pbt',
            'level_claimed': {'category': 'exploration', 'text': text, 'design_ref': ref},
            'level_note': note,
            'technique': tech,
        })
    man = {
        'version': 1,
        'setup_cmd': f'{PY} tools/setup_check.py',
        'hooks': {
            'guard': 'FURAX_VERIF',
            'enable': 'none needed: no instrumentation was added to /repo; checks import furax from /repo/src of the '
                      'current working tree (PYTHONPATH) and wrap rule instances from the harness side',
            'baseline_off_cmd': 'cd /repo && /venv/bin/python -m pytest -ra -q -p no:cacheprovider --timeout=900 '
                                '--continue-on-collection-errors',
            'source_commits': [],
            'add_only': True,
        },
        'engines': [{
            'name': 'furax-pbt',
            'path': '/verif/run_check.py',
            'serves_properties': [c['property_id'] for c in checks],
            'kind_free_text': 'Hypothesis-driven generated search over JSON recipes with numpy reference models; '
                              'sharded over 16 worker processes covering 64-bit mode on and off; shrinks failures to '
                              'replay files; exhaustive enumeration for small finite sub-domains',
        }],
        'checks': checks,
        'notes': 'All checks: exit 0 held / exit 1 with VIOLATION line / exit 2 harness error or inconclusive. '
                 'VERIF_SEED selects the Hypothesis seeds (default 1). Known findings: /verif/KNOWN_FINDINGS.txt.',
        'not_applicable': [{'property_id': p, 'reason': NOT_YET} for p in props if p not in CHECKS],
    }
    with open(os.path.join(HERE, 'MANIFEST.json'), 'w') as fh:
        json.dump(man, fh, indent=1)
    print('wrote MANIFEST.json with', len(checks), 'checks')


if __name__ == '__main__':
    main()
