#!/usr/bin/env python3
"""Regenerates /verif/MANIFEST.json from the table below (run after adding a check)."""
import json
import os
import sys

HERE = os.path.dirname(os.path.dirname(os.path.abspath(__file__)))
sys.path.insert(0, HERE)

PY = '/venv/bin/python'

# property id -> (technique, level text, level note, design ref)
CHECKS = {
    'C12': (
        'property-based testing (Hypothesis index-expression grammar) against a numpy indexing / np.add.at / selection-matrix oracle',
        'Generated search: thousands of index expressions and pack masks per run, both 64-bit modes, every '
        'case compared exactly with numpy x[idx], the np.add.at scatter and S S^T / S^T S of the numpy selection '
        'matrix. Exploration only: no absence claim beyond the sizes and case counts reported in the evidence.',
        'Trusts numpy advanced indexing as the specification of "x[indices]"; in-bounds indices; leaves <= 60 elements.',
        'DESIGN.md section 4 (C12)',
    ),
}

EXPL = ('Exploration only: no absence claim beyond the sizes, modes and case counts reported in the evidence; '
        'sensitivity against seeded changes is recorded in DESIGN.md section 7.')

CHECKS.update({
    'C01': (
        'property-based testing: Hypothesis type-directed expression generator (random operands, pattern and near-miss snippets) with a metamorphic oracle (reduce() vs the unreduced expression) and a rule-call counter for termination',
        'Generated search over typed operator expression trees (chains, sums, blocks, transposes, scalar multiples, '
        'lazy inverses; both 64-bit modes): reduce() must not raise, must terminate within a bounded number of rule '
        'calls, keep the declared structures and agree with the unreduced operator on all basis / probe vectors within '
        'a forward error bound. Every registered rule is required to fire in the thorough tier. ' + EXPL,
        'Trusts eager application of the unreduced operator as the reference for "the same map" (the numpy model is only used for the error scale); small sizes; float32/float64.',
        'DESIGN.md section 4 (C01)'),
    'C02': (
        'property-based testing: Hypothesis arithmetic-tree generator with a numpy matrix-arithmetic reference model, plus generated ill-typed operand pairs that must be rejected',
        'Generated arithmetic trees over @ + - unary +/- and scalar multiples/divisions with every operand kind on '
        'either side are compared with numpy arithmetic on the operand matrices; generated structurally incompatible '
        'pairs (every ordered pair of operand kinds x kind of mismatch) and non-scalar scalars must raise. ' + EXPL,
        'Trusts the numpy reference model of the leaf operators (itself cross-validated by C03/C04/C11-C15 checks).',
        'DESIGN.md section 4 (C02)'),
    'C03': (
        'property-based testing: Hypothesis expression generator with a numpy transposed-matrix oracle, the adjoint identity on integer vectors and a differential check hand-written vs generic (jax.linear_transpose) transpose',
        'For generated operators and composites op.T must have swapped structures, denote the transposed numpy '
        'matrix, op.T.T must denote the matrix again, <Ax,y> = <x,A^T y>, and the generic TransposeOperator must '
        'agree with every hand-written transpose. ' + EXPL,
        'Transposes of iterative inverses excluded as in the property; numpy reference model trusted.',
        'DESIGN.md section 4 (C03)'),
    'C04': (
        'property-based testing: Hypothesis expression generator (half of the cases with an as_matrix-overriding class on top) against a numpy matrix assembled in the documented leaf/row-major order; metamorphic linearity check',
        'op(a x + b y) = a op(x) + b op(y); op.as_matrix(), the generic column-by-column as_matrix and op.mv are all '
        'compared with the numpy denotation assembled in pytree-leaf, row-major order. ' + EXPL,
        'numpy reference model trusted; generic as_matrix run on inputs of <= 12 elements (XLA compile per call). Complex-valued operator data not generated.',
        'DESIGN.md section 4 (C04)'),
    'C05': (
        'property-based testing: Hypothesis expression generator over float32/float64/mixed-dtype pytrees with a four-way structure agreement oracle (declared vs actual vs traced vs pure-python structure rule)',
        'For op, op.T, op.reduce() (and op.I): out_structure() == structure of mv(x) == jax.eval_shape(mv) == the '
        'harness structure rule, exactly (tree, shapes, dtypes); sizes and promoted dtypes agree. One known finding '
        '(mixed-dtype P.T@P reduction) is reported as KNOWN-FINDING. ' + EXPL,
        'Operator parameters no wider than the data dtype, as the property states.',
        'DESIGN.md section 4 (C05)'),
    'C10': (
        'property-based testing: Hypothesis block-container generator (arity 1-4, nested/dict/bare containers, pytree-valued blocks, products with equal and one-side-nested layouts, ill-formed rows/columns) against numpy hstack/vstack/block-diagonal',
        'Block row/diag/column operators are compared with the stacked numpy matrices of their blocks (mv, as_matrix, '
        'structures), transposes and block-wise inverses by class and value, ill-formed constructions must raise '
        'ValueError, products of block operators must reduce without error, keep the value and (equal layouts) have '
        'the documented class. ' + EXPL,
        'numpy reference model trusted; sizes <= ~48 elements.',
        'DESIGN.md section 4 (C10)'),
})

CHECKS.update({
    'C06': (
        'property-based testing: Hypothesis generators for closed-form inverses, SPD operators with bounded condition number under generated solver settings, and non-square operators; numpy inverse / pseudo-inverse oracle and calibrated residual bounds',
        'Closed forms: round trips A.I(A(x)) = x = A(A.I(x)), dense form vs numpy (pseudo-)inverse, A.I.I; diagonals with '
        'zeros stay finite on 1e30 inputs. SPD without closed form under `with Config(solver=CG(rtol, atol, max_steps))`: '
        'residual and solution error within 10x the configured tolerance (calibrated), as_matrix == numpy inverse. '
        'Non-square operators must refuse inversion. ' + EXPL,
        'Condition numbers <= 1e2 (float32) / 1e3 (float64); lazy inverses only on uniform-dtype structures; CG bound calibrated at design time.',
        'DESIGN.md section 4 (C06)'),
    'C07': (
        'model-based property testing: Hypothesis typed token chains (patterns embedded in inert contexts, purpose-built cascades) compared with a reference reducer over tokens; re-submission of every adjacent pair of the result to all registered rules; scalar-factor invariants',
        'For generated chains the token sequence of reduce() must equal that of a reference reducer implementing the '
        'documented rules to a fixpoint (so a lost simplification is detected although values stay correct), no adjacent '
        'pair of the result may still be accepted by any registered rule, at most one scalar factor remains, equal to '
        'the product and on the side with fewer elements. ' + EXPL,
        'The reference reducer encodes the documented patterns only; extra simplifications by furax are recorded, not flagged. Value preservation is C01.',
        'DESIGN.md section 4 (C07)'),
    'C08': (
        'property-based testing: Hypothesis instance generator for every concrete operator class (class walk) plus borderline constructions; numpy matrix-property oracle for every tag that answers True',
        'Every lineax tag that answers True on a generated instance, and the square/orthogonal decorators of its class, '
        'are checked against the numpy denotation (zero pattern, symmetry, definiteness, M^T M = I, op.T is op, op.I = '
        'op.T, mv keeps the structure). One direction only, as the property states. ' + EXPL,
        'numpy reference model trusted; constructions the library normally refuses are judged only if a modified library accepts them.',
        'DESIGN.md section 4 (C08)'),
    'C09': (
        'property-based testing: Hypothesis configuration generator (n, K incl. K > n, fft_size, batch/broadcast shapes, dtypes, 64-bit mode) running all four methods differentially against a float64 double-loop reference; exhaustive sweep of a small box in the thorough tier',
        'Each of dense/direct/fft/overlap_save must return T x for the band matrix T built by a double loop (per batch '
        'row), as_matrix must be the block-diagonal band matrix, T symmetric (op.T is op), output shape/dtype == input\'s, '
        'invalid methods and FFT sizes must raise ValueError. ' + EXPL,
        'Band batch shape broadcastable to the input batch shape; band dtype no wider than the data; FFT tolerance 8 (log2 N + 4) eps sum|band| max|x|.',
        'DESIGN.md section 4 (C09)'),
    'C11': (
        'property-based testing + exhaustive enumeration of a small box: axis_destination specifications against an explicit-index-loop numpy oracle that also decides legality',
        'Generated and enumerated (value shape, axis specification, leaf shapes) triples: illegal ones must raise '
        'ValueError at construction, legal ones must give exactly the oracle\'s values, structures and dense form, '
        'independently of build order, dict order and sibling leaves. ' + EXPL,
        'The loop oracle was written from the docstring and validated against the unchanged tree at design time.',
        'DESIGN.md section 4 (C11)'),
    'C13': (
        'property-based testing + exhaustive enumeration over small shapes: numpy moveaxis/reshape oracle, transpose-is-inverse round trips, permutation-matrix check, no-op reduction iff shapes unchanged, near-miss inverse partners',
        'Move-axis, ravel and reshape operators are compared exactly with numpy per leaf, their transposes must invert '
        'them, the two illegal argument categories the property names must raise ValueError, reduce() is the identity iff '
        'no leaf shape changes, and a different reshape with the same output structure must not be treated as an inverse. ' + EXPL,
        'No zero-sized dimensions; only the illegal categories the property names are judged.',
        'DESIGN.md section 4 (C13)'),
    'C14': (
        'exhaustive enumeration of the subscript grammar over {h,i,j,k} (2 217 984 strings: repeated letters, ellipsis at any position) with a numpy adjoint oracle and a spec-side must-accept predicate, plus Hypothesis operator-level cases (shapes, shared/per-leaf blocks, multi-leaf inputs)',
        'Every string of the grammar is either rejected or rewritten into subscripts that pass the exact integer adjoint '
        'test; strings in the must-accept class must be transposed; operator-level mv / T.mv / structures agree with '
        'np.einsum. exhaustive: true refers to the enumerated grammar only. ' + EXPL,
        'numpy.einsum is the specification; alphabet of four letters; explicit two-operand strings.',
        'DESIGN.md section 4 (C14)'),
    'C15': (
        'property-based testing: Hypothesis chains of polarimetry operators and factory calls against explicit per-element 4x4 Mueller matrices in float64',
        'Every operator and transpose, every chain before and after reduce(), every factory with and without angles '
        'must equal the sequential product of explicit Mueller matrices on the components present; reduction must not '
        'modify its operands. ' + EXPL,
        'Tolerance (8 n + 8 sum|angle|) eps |x|; angle values as rounded to their dtype.',
        'DESIGN.md section 4 (C15)'),
    'C16': (
        'property-based testing: Hypothesis pointing configurations against an independent numpy pointing model (elementary rotations + healpy.vec2pix) with robustness filtering of boundary directions',
        'create_projection_operator, create_acquisition (before and after reduce) and P.T @ P (before and after reduce) '
        'are compared with the explicit Z-Y-Z pointing model, healpy ring pixelisation and numpy hit counts. ' + EXPL,
        'healpy is the reference; boundary directions (pixel changes under 1e-9 / 2e-4 perturbation) excluded from pixel verdicts and counted; acquisition needs 64-bit mode.',
        'DESIGN.md section 4 (C16)'),
    'C17': (
        'property-based testing + exhaustive enumeration of all small maps: numpy ravel_multi_index oracle for pixel2index, healpy.ang2pix differential for world2index, numpy.bincount for coverage',
        'pixel2index (value, -1 outside, dtype, bijection and row-major order on every small map), HEALPix world2index '
        'against healpy on stable directions, get_coverage against the histogram. ' + EXPL,
        'Exact half-integer coordinates not generated; int64 sub-claim only with x64 on.',
        'DESIGN.md section 4 (C17)'),
    'C18': (
        'property-based / differential testing: eager vs jit-over-closure vs flatten/unflatten vs equinox.filter_jit executions of generated operators of every class; landscape round trips',
        'Four executions of every generated operator must agree in tree structure, shapes, dtypes and values; landscapes '
        'must survive flatten/unflatten with all attributes and results. ' + EXPL,
        'filter_jit skipped for boolean-mask operators as the property states; values compared with a forward error bound.',
        'DESIGN.md section 4 (C18)'),
    'C19': (
        'stateful model-based testing: Hypothesis RuleBasedStateMachine owning worker threads that execute real `with Config(...)` blocks; reference model = one stack of dicts per thread; invariant after every event',
        'Generated histories (enter / exit / exit-by-exception / read / create-inverse / apply-inverse across threads / '
        'copied contexts, 1-3 threads, event-level interleavings) are executed against furax and against the stack model; '
        'active configuration, restoration to the default object, capture by lazy inverses (callback and solver actually '
        'used) and isolation between threads and contexts are checked after every event. ' + EXPL,
        'Interleavings at API-event granularity (the harness owns the schedule).',
        'DESIGN.md section 4 (C19)'),
    'C20': (
        'property-based testing: Hypothesis operand/operator/factory/helper generator against per-component numpy arithmetic with operand order preserved',
        'Binary arithmetic in direct and reflected position with every operand type, unary operations, indexing, '
        'reshaping, factories with dtype promotion and the pytree helpers are compared with numpy per component; '
        'unsupported operands and invalid kinds must raise. ' + EXPL,
        'NumPy ndarrays of rank >= 1 as the other operand are outside the domain (NumPy dispatch).',
        'DESIGN.md section 4 (C20)'),
})

NOT_YET = 'check not built yet in this round (planned, see DESIGN.md section 4)'


def main():
    props = [json.loads(l)['id'] for l in open(os.path.join(HERE, 'properties.jsonl'))]
    checks = []
    for pid in props:
        if pid not in CHECKS:
            continue
        tech, text, note, ref = CHECKS[pid]
        checks.append({
            'property_id': pid,
            'quick_cmd': f'{PY} run_check.py {pid} --tier quick',
            'thorough_cmd': f'{PY} run_check.py {pid} --tier thorough',
            'evidence_file': f'/verif/evidence/{pid}.json',
            'replay_cmd_template': f'{PY} run_check.py {pid} --replay {{path}}',
            'engine': 'furax-pbt',
            'level_claimed': {'category': 'exploration', 'text': text, 'design_ref': ref},
            'level_note': note,
            'technique': tech,
        })
    man = {
        'version': 1,
        'setup_cmd': f'{PY} tools/setup_check.py',
        'hooks': {
            'guard': 'FURAX_VERIF',
            'enable': 'none needed: no instrumentation was added to /repo; checks import furax from /repo/src of the '
                      'current working tree (PYTHONPATH) and wrap rule instances from the harness side',
            'baseline_off_cmd': 'cd /repo && /venv/bin/python -m pytest -ra -q -p no:cacheprovider --timeout=900 '
                                '--continue-on-collection-errors',
            'source_commits': [],
            'add_only': True,
        },
        'engines': [{
            'name': 'furax-pbt',
            'path': '/verif/run_check.py',
            'serves_properties': [c['property_id'] for c in checks],
            'kind_free_text': 'Hypothesis-driven generated search over JSON recipes with numpy reference models; '
                              'sharded over 16 worker processes covering 64-bit mode on and off; shrinks failures to '
                              'replay files; exhaustive enumeration for small finite sub-domains',
        }],
        'checks': checks,
        'notes': 'All checks: exit 0 held / exit 1 with VIOLATION line / exit 2 harness error or inconclusive. '
                 'VERIF_SEED selects the Hypothesis seeds (default 1). Known findings: /verif/KNOWN_FINDINGS.txt.',
        'not_applicable': [{'property_id': p, 'reason': NOT_YET} for p in props if p not in CHECKS],
    }
    with open(os.path.join(HERE, 'MANIFEST.json'), 'w') as fh:
        json.dump(man, fh, indent=1)
    print('wrote MANIFEST.json with', len(checks), 'checks')


if __name__ == '__main__':
    main()
