#!/bin/bash
# usage: run_all.sh <tier> <seed> [properties...]   -- runs the checks one after the other, prints one summary line each
tier=${1:-quick}; seed=${2:-1}; shift 2
props=${@:-C01 C02 C03 C04 C05 C06 C07 C08 C09 C10 C11 C12 C13 C14 C15 C16 C17 C18 C19 C20}
cd "$(dirname "$0")/.."
rc_all=0
for p in $props; do
  VERIF_SEED=$seed /venv/bin/python run_check.py $p --tier $tier > /tmp/run_all_$$.log 2>&1; rc=$?
  grep -E "^C[0-9]+ tier|^VIOLATION|^  key|^  detail|INCONCLUSIVE|HARNESS-ERROR" /tmp/run_all_$$.log | cut -c1-300
  echo "   -> $p tier=$tier seed=$seed rc=$rc"
  [ $rc -ne 0 ] && rc_all=1
done
rm -f /tmp/run_all_$$.log
exit $rc_all
