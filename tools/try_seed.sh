#!/bin/bash
# usage: try_seed.sh <patch.diff> <prop> [tier] [seed]
# Runs a check against a scratch copy of /repo/src with the patch applied (VERIF_REPO_SRC), removed afterwards.
set -u
patch=$1; prop=$2; tier=${3:-quick}; seed=${4:-1}
d=$(mktemp -d /tmp/ts_XXXXXX)
cp -r /repo/src $d/src
( cd $d && patch -p1 -s < $patch ) || { echo "patch failed"; rm -rf $d; exit 3; }
cd /verif
VERIF_NO_EVIDENCE=1 VERIF_SEED=$seed VERIF_REPO_SRC=$d/src /venv/bin/python run_check.py $prop --tier $tier 2>&1 | grep -E "^VIOLATION|key=|detail=|^C[0-9]+ tier|INCONCLUSIVE|KNOWN" | head -${LINES_MAX:-12}
rc=${PIPESTATUS[0]}
rm -rf $d
exit $rc
